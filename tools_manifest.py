#!/usr/bin/env python3
"""Generates /verif/MANIFEST.json from the table below. Run after adding a check."""
import json, subprocess, os

ALL = [f"C{i:02d}" for i in range(1, 21)]

# id -> (engine, technique, level text, level note, design ref)
CHECKS = {}

def add(id, engine, technique, text, note, ref):
    CHECKS[id] = (engine, technique, text, note, ref)

exec(open(os.path.join(os.path.dirname(__file__), "manifest_table.py")).read())

hooks_commits = subprocess.run(
    ["git", "-C", "/repo", "log", "--format=%H %s", "--grep=^verif", "-i"],
    capture_output=True, text=True).stdout.strip().splitlines()
hook_shas = [l.split()[0] for l in hooks_commits if "verif" in l.lower() and not l.split(" ", 1)[1].startswith("fix:")]

m = {
    "version": 1,
    "setup_cmd": "cd /verif && sh bin/setup",
    "hooks": {
        "guard": "verif",
        "enable": "go build -tags verif (harness module /verif/mc, replace github.com/PowerDNS/lightningstream => /repo)",
        "baseline_off_cmd": "cd /repo && GOFLAGS=-mod=mod GOPROXY=off go test -vet=off -count=1 -timeout 25m ./...",
        "source_commits": hook_shas,
        "add_only": True,
    },
    "engines": [
        {"name": "E1-enum", "path": "/verif/mc/checks (enumeration loops) + /verif/mc/lib", "kind_free_text": "bounded-exhaustive enumeration of inputs / stored states / operation sequences on the real code against Go reference models",
         "serves_properties": sorted([k for k, v in CHECKS.items() if "E1" in v[0]])},
        {"name": "E2-statemc", "path": "/verif/mc/lib/statemc", "kind_free_text": "explicit-state BFS whose transitions call the real SendOnce/LoadOnce/cleaner.RunOnce on real LMDB environments; replay-from-initial, canonical hashing with rank-abstracted timestamps",
         "serves_properties": sorted([k for k, v in CHECKS.items() if "E2" in v[0]])},
        {"name": "E3-sched", "path": "/verif/mc/lib/sched, /verif/mc/lib/explore", "kind_free_text": "stateless deviation-bounded DFS over environment answers and goroutine schedules of the real code (controlled scheduler at verifhook yield points, harness-owned clock/sleep/storage, quiescence by runtime.Stack introspection)",
         "serves_properties": sorted([k for k, v in CHECKS.items() if "E3" in v[0]])},
    ],
    "checks": [],
    "not_applicable": [],
    "notes": "All checks run the real implementation built from /repo's working tree with -tags verif. Known findings: /verif/known_findings.txt. See DESIGN.md.",
}
for id in ALL:
    if id in CHECKS:
        engine, technique, text, note, ref = CHECKS[id]
        m["checks"].append({
            "property_id": id,
            "quick_cmd": f"bin/check {id} quick",
            "thorough_cmd": f"bin/check {id} thorough",
            "evidence_file": f"/verif/evidence/{id}.json",
            "replay_cmd_template": f"bin/check {id} quick -replay {{path}}",
            "engine": engine,
            "level_claimed": {"category": "model_checking", "text": text, "design_ref": ref},
            "level_note": note,
            "technique": technique,
        })
    else:
        m["not_applicable"].append({"property_id": id, "reason": "check not built yet in this round (planned, see DESIGN.md section 4); not claimed until its check exists and passes"})
json.dump(m, open("/verif/MANIFEST.json", "w"), indent=1)
print("checks:", len(m["checks"]), "not claimed:", len(m["not_applicable"]))
