#!/bin/sh
# usage: tools_seedtest.sh <patch.diff> <tier> <check id>...
# Applies a seeded change to /repo, runs the given checks, reverts. Prints one line per check.
# Evidence and replay files written during the seeded run are discarded afterwards.
P=$1; TIER=$2; shift 2
cd /repo || exit 2
if [ -n "$(git status --porcelain)" ]; then echo "repo dirty, refusing"; exit 2; fi
if ! git apply "$P" 2>/tmp/seedapply.err && ! git apply --3way "$P" 2>>/tmp/seedapply.err; then echo "PATCH DOES NOT APPLY: $P"; cat /tmp/seedapply.err; git reset -q --hard HEAD; exit 2; fi
SAVE=$(mktemp -d /dev/shm/seedsave.XXXXXX)
mkdir -p /verif/evidence /verif/replays
cp -a /verif/evidence "$SAVE/evidence"; cp -a /verif/replays "$SAVE/replays"
for id in "$@"; do
  out=$(cd /verif && timeout 3000 bin/check $id $TIER 2>&1); rc=$?
  nv=$(echo "$out" | grep -c '^VIOLATION')
  echo "seed=$(basename $(dirname $P)) check=$id rc=$rc violations=$nv $(echo "$out" | grep -m1 'sig=' | tr -s ' ')"
  [ $rc -ge 2 ] && echo "$out" | tail -5
done
rm -rf /verif/evidence /verif/replays
mv "$SAVE/evidence" /verif/evidence; mv "$SAVE/replays" /verif/replays; rmdir "$SAVE"
git -C /repo reset -q --hard HEAD
git -C /repo status --porcelain | head -3
