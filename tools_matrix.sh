#!/bin/sh
# usage: tools_matrix.sh [tier]   Runs, for every seed in /verif/seeded, the check of the property it was written for
# (plus extra checks listed in seeded/<id>/also.txt) and writes /verif/seeded/RESULTS.txt.
TIER=${1:-quick}
OUT=/verif/seeded/RESULTS.txt
: > $OUT.tmp
for d in /verif/seeded/C*/; do
  n=$(basename $d); prop=${n%-*}
  checks="$prop"; [ -f $d/also.txt ] && checks="$checks $(cat $d/also.txt)"
  /verif/tools_seedtest.sh $d/patch.diff $TIER $checks | grep '^seed=' | sed 's/KNOWN-FINDING.*//' | cut -c1-200 >> $OUT.tmp
done
mv $OUT.tmp $OUT
grep -c "rc=1" $OUT; grep "rc=0\|rc=2" $OUT
