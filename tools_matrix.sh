#!/bin/sh
# usage: tools_matrix.sh [tier] [parallel] [glob of seed directories, default C*]   (with a glob: results are merged into RESULTS.txt)
# Runs, for every seed in /verif/seeded, the check of the property it was written for (plus the checks listed in
# seeded/<id>/also.txt) in an isolated scratch worktree + harness copy (tools_seedtest_iso.sh: /repo and /verif stay
# untouched) and writes /verif/seeded/RESULTS.txt.
TIER=${1:-quick}; PAR=${2:-2}; GLOB=${3:-C*}
OUT=/verif/seeded/RESULTS.txt
TMP=$(mktemp -d /dev/shm/matrix.XXXXXX)
ls -d /verif/seeded/$GLOB/ | while read d; do
  n=$(basename $d); prop=${n%-*}
  checks="$prop"; [ -f $d/also.txt ] && checks="$checks $(cat $d/also.txt)"
  echo "$n $checks"
done > $TMP/jobs
xargs -P $PAR -L 1 sh -c '/verif/tools_seedtest_iso.sh /verif/seeded/$0/patch.diff '"$TIER"' "$@" | grep "^seed=" | sed "s/KNOWN-FINDING.*//" | cut -c1-200 > '"$TMP"'/$0.out' < $TMP/jobs
if [ "$GLOB" = "C*" ]; then cat $TMP/*.out | sort > $OUT; else
  for f in $TMP/*.out; do n=$(basename $f .out); grep -v "^seed=$n " $OUT > $OUT.new 2>/dev/null; mv $OUT.new $OUT; done
  cat $TMP/*.out >> $OUT; sort -o $OUT $OUT
fi
rm -rf $TMP
echo "detected (rc=1): $(grep -c 'rc=1' $OUT) lines; not detected by that check:"; grep "rc=0\|rc=2" $OUT
