#!/bin/sh
# usage: tools_seedverify.sh <seed dir>   e.g. /tmp/seed/C02-1
# Confirms in a scratch worktree of /repo HEAD: demo passes without the patch; with the patch the full
# suite passes and the demo fails. On success copies the seed to /verif/seeded/<name>/.
S=$1; N=$(basename $S)
export GOFLAGS=-mod=mod GOPROXY=off
WT=/tmp/wt/verify-$N
git -C /repo worktree add -q --detach $WT HEAD || exit 2
cleanup() { git -C /repo worktree remove --force $WT; }
cd $WT
RUN=$(grep -o "go test [^\`]*" $S/demo.txt | head -1)
place() {
  for f in $S/*_test.go $S/*.go; do
    [ -f "$f" ] || continue
    b=$(basename $f)
    d=$(grep -o "[A-Za-z0-9_/.-]*$b" $S/demo.txt | grep / | head -1)
    if [ -z "$d" ]; then
      # default: the package directory named by the run command
      pk=$(echo "$RUN" | grep -o "\./[A-Za-z0-9_/.-]*" | tail -1 | sed 's#^\./##; s#/*$##; s#/\.\.\.$##')
      [ -z "$pk" ] && pk=syncer
      d="$pk/$b"
    fi
    d=$(echo $d | sed 's#^\./##; s#^/*##')
    mkdir -p $(dirname $d); cp $f $d; echo $d
  done
}
[ -z "$RUN" ] && { echo "$N: no run command found in demo.txt"; cleanup; exit 2; }
files=$(place)
r0=$(sh -c "$RUN" 2>&1); rc0=$?
rm -f $files
if ! git apply $S/patch.diff 2>/dev/null && ! git apply --3way $S/patch.diff 2>/dev/null; then echo "$N: PATCH DOES NOT APPLY to current HEAD"; cleanup; exit 1; fi
rs=$(go build ./... 2>&1 && go test -vet=off -count=1 ./... 2>&1); rcs=$?
files=$(place)
r1=$(sh -c "$RUN" 2>&1); rc1=$?
echo "$N: demo-without-patch rc=$rc0 suite-with-patch rc=$rcs demo-with-patch rc=$rc1"
ok=0
if [ $rc0 -eq 0 ] && [ $rcs -eq 0 ] && [ $rc1 -ne 0 ]; then ok=1; fi
if [ $ok -eq 1 ]; then
  mkdir -p /verif/seeded/$N && cp $S/* /verif/seeded/$N/
  git diff -- . ':(exclude)*_test.go' > /verif/seeded/$N/patch.diff
  echo "$N: CONFIRMED -> /verif/seeded/$N"
else
  echo "$N: NOT CONFIRMED"; [ $rc0 -ne 0 ] && echo "$r0" | tail -15; [ $rcs -ne 0 ] && echo "$rs" | grep -v "^ok\|no test files" | tail -15
fi
cd /; cleanup
[ $ok -eq 1 ]
