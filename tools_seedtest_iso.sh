#!/bin/sh
# usage: tools_seedtest_iso.sh <patch.diff> <tier> <check id>...
# Like tools_seedtest.sh, but leaves /repo and /verif untouched: the seeded change is applied to a scratch
# worktree of /repo's HEAD and the checks run from a scratch copy of the harness whose go.mod points at
# that worktree. Several of these can run side by side, and next to regular checks.
P=$1; TIER=$2; shift 2
N=$(basename $(dirname $P))
WT=/tmp/wt/iso-$N-$$
HV=/dev/shm/isoverif-$N-$$
git -C /repo worktree add -q --detach $WT HEAD || exit 2
cleanup() { git -C /repo worktree remove --force $WT 2>/dev/null; rm -rf $HV; }
trap cleanup EXIT INT TERM
if ! git -C $WT apply "$P" 2>/tmp/seedapply-$$.err && ! git -C $WT apply --3way "$P" 2>>/tmp/seedapply-$$.err; then echo "PATCH DOES NOT APPLY: $P"; cat /tmp/seedapply-$$.err; rm -f /tmp/seedapply-$$.err; exit 2; fi
rm -f /tmp/seedapply-$$.err
mkdir -p $HV
cp -a /verif/bin /verif/known_findings.txt $HV/
mkdir $HV/mc && cp -a /verif/mc/go.mod /verif/mc/go.sum /verif/mc/lib /verif/mc/checks $HV/mc/
sed -i "s#=> /repo\$#=> $WT#" $HV/mc/go.mod
grep -q "=> $WT" $HV/mc/go.mod || { echo "could not redirect go.mod"; exit 2; }
for id in "$@"; do
  out=$(cd $HV && timeout 3000 bin/check $id $TIER 2>&1); rc=$?
  nv=$(echo "$out" | grep -c '^VIOLATION')
  echo "seed=$N check=$id rc=$rc violations=$nv $(echo "$out" | grep -m1 'sig=' | tr -s ' ')"
  [ $rc -ge 2 ] && echo "$out" | tail -5
done
exit 0
