#!/bin/sh
# usage: tools_runall.sh [tier]  - runs every check on /repo's current tree, prints one line per check
TIER=${1:-quick}
for i in 01 02 03 04 05 06 07 08 09 10 11 12 13 14 15 16 17 18 19 20; do
  s=$(date +%s)
  out=$(bin/check C$i $TIER 2>&1); rc=$?
  e=$(date +%s)
  echo "C$i rc=$rc t=$((e-s))s $(echo "$out" | grep -c '^VIOLATION') violations, $(echo "$out" | grep -c '^KNOWN-FINDING') known | $(echo "$out" | grep "^C$i tier" | cut -c1-160)"
  [ $rc -ne 0 ] && echo "$out" | grep -A3 "^VIOLATION\|HARNESS" | head -12
done
