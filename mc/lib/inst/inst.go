// Package inst wraps one real Lightning Stream instance (a syncer.Syncer on a
// scratch LMDB, talking to a harness bucket) and the application next to it.
package inst

import (
	"context"
	"fmt"
	"time"

	"github.com/PowerDNS/lightningstream/config"
	"github.com/PowerDNS/lightningstream/lmdbenv/header"
	"github.com/PowerDNS/lightningstream/snapshot"
	"github.com/PowerDNS/lightningstream/syncer"
	"github.com/PowerDNS/lmdb-go/lmdb"
	"github.com/PowerDNS/simpleblob"

	"verif/lib/world"
)

const DBName = "db"

type Opt struct {
	Native      bool
	DupSortHack bool
	Padding     bool
	ReceiveOnly bool
	Sweeper     *config.Sweeper
	Cleanup     *config.Cleanup
	MapSize     int64
	Tweak       func(c *config.Config, lc *config.LMDB)
	Env         *world.Env // reuse an existing environment (restart)
	SyncerOpt   *syncer.Options
}

type Inst struct {
	Name string
	Env  *world.Env
	S    *syncer.Syncer
	Opt  Opt
	Cfg  config.Config
	LC   config.LMDB
	St   simpleblob.Interface
}

// Distinct sleep durations identify the sleeping site for the sleep seam.
const (
	PollLMDB     = 101 * time.Millisecond
	PollStorage  = 102 * time.Millisecond
	RetryStorage = 103 * time.Millisecond
)

func New(name string, st simpleblob.Interface, o Opt) *Inst {
	c := config.Config{
		Instance:                    name,
		LMDBs:                       map[string]config.LMDB{},
		LMDBPollInterval:            PollLMDB,
		StoragePollInterval:         PollStorage,
		StorageRetryInterval:        RetryStorage,
		StorageRetryCount:           3,
		MemoryDownloadedSnapshots:   2,
		MemoryDecompressedSnapshots: 3,
	}
	if o.Sweeper != nil {
		c.Sweeper = *o.Sweeper
	}
	if o.Cleanup != nil {
		c.Storage.Cleanup = *o.Cleanup
	}
	lc := config.LMDB{SchemaTracksChanges: o.Native, DupSortHack: o.DupSortHack, HeaderExtraPaddingBlock: o.Padding}
	if o.Tweak != nil {
		o.Tweak(&c, &lc)
	}
	env := o.Env
	if env == nil {
		env = world.NewEnv(o.MapSize)
	}
	c.LMDBs[DBName] = lc
	so := syncer.Options{ReceiveOnly: o.ReceiveOnly}
	if o.SyncerOpt != nil {
		so = *o.SyncerOpt
		so.ReceiveOnly = o.ReceiveOnly
	}
	s, err := syncer.New(DBName, env.Env, st, c, lc, so)
	if err != nil {
		panic(err)
	}
	return &Inst{Name: name, Env: env, S: s, Opt: o, Cfg: c, LC: lc, St: st}
}

func (i *Inst) Destroy() { i.Env.Destroy() }

// Send runs the real SendOnce.
func (i *Inst) Send() (header.TxnID, error) {
	return i.S.SendOnce(context.Background(), i.Env.Env)
}

// SendCtx runs the real SendOnce with the given context.
func (i *Inst) SendCtx(ctx context.Context) (header.TxnID, error) {
	return i.S.SendOnce(ctx, i.Env.Env)
}

// Load runs the real LoadOnce on a blob of the bucket.
func (i *Inst) Load(blobName string, data []byte, last header.TxnID) (header.TxnID, bool, error) {
	ni, err := snapshot.ParseName(blobName)
	if err != nil {
		return 0, false, err
	}
	snap, err := snapshot.LoadData(data)
	if err != nil {
		return 0, false, err
	}
	u := snapshot.Update{Snapshot: snap, NameInfo: ni}
	return i.S.LoadOnce(context.Background(), i.Env.Env, ni.InstanceID, u, last)
}

// ---- application side ----

// AppTxn runs an application write transaction.
func (i *Inst) AppTxn(f func(txn *lmdb.Txn) error) int64 {
	var id int64
	err := i.Env.Update(func(txn *lmdb.Txn) error {
		id = int64(txn.ID())
		return f(txn)
	})
	if err != nil {
		panic(fmt.Sprintf("app txn: %v", err))
	}
	return id
}

// NativePut writes a header-carrying value the way a native application does.
func NativePut(txn *lmdb.Txn, dbiName string, key []byte, ts uint64, deleted bool, val []byte) {
	dbi, err := txn.OpenDBI(dbiName, lmdb.Create)
	if err != nil {
		panic(err)
	}
	var fl byte
	if deleted {
		fl = 1
		val = nil
	}
	if err := txn.Put(dbi, key, world.MakeHdr(ts, uint64(txn.ID()), fl, 0, val), 0); err != nil {
		panic(err)
	}
}

// PlainPut writes a plain value (shadow mode application).
func PlainPut(txn *lmdb.Txn, dbiName string, flags uint, key, val []byte) {
	dbi, err := txn.OpenDBI(dbiName, lmdb.Create|flags)
	if err != nil {
		panic(err)
	}
	if err := txn.Put(dbi, key, val, 0); err != nil {
		panic(err)
	}
}

// PlainDel deletes a key (shadow mode application). Missing keys are fine.
func PlainDel(txn *lmdb.Txn, dbiName string, flags uint, key, val []byte) {
	dbi, err := txn.OpenDBI(dbiName, lmdb.Create|flags)
	if err != nil {
		panic(err)
	}
	if err := txn.Del(dbi, key, val); err != nil && !lmdb.IsNotFound(err) {
		panic(err)
	}
}
