// Package fleet is a world of N real Lightning Stream instances sharing one
// in-memory bucket and one logical clock, driven event by event (engine E2).
// Every event is a real call: application write transactions, SendOnce,
// LoadOnce of any blob, cleaner.RunOnce.
package fleet

import (
	"context"
	"crypto/sha256"
	"encoding/hex"
	"fmt"
	"io"
	"sort"
	"strconv"
	"strings"
	"time"

	"github.com/PowerDNS/lightningstream/config"
	"github.com/PowerDNS/lightningstream/lmdbenv/header"
	"github.com/PowerDNS/lightningstream/snapshot"
	"github.com/PowerDNS/lightningstream/utils/verifhook"
	"github.com/PowerDNS/lmdb-go/lmdb"

	"verif/lib/inst"
	"verif/lib/world"
)

type Cfg struct {
	N          int      `json:"n"`
	Native     bool     `json:"native"`
	Keys       []string `json:"keys"` // "dbi/key"
	Vals       []string `json:"vals"`
	TS0        bool     `json:"ts0"`     // native: allow application writes with timestamp 0 on absent keys
	NoTick     bool     `json:"notick"`  // allow events at the same clock value as the previous event of another instance
	Padding    bool     `json:"padding"` // header_extra_padding_block
	Cleaner    bool     `json:"cleaner"` // cleaner events (C05b)
	Restart    bool     `json:"restart"`
	KeepNS     int64    `json:"keep_ns"`
	StaleNS    int64    `json:"stale_ns"`
	Silent     int      `json:"silent"` // instance index that stops after its first upload (-1 none)
	IntKey     bool     `json:"intkey"`
	MaxSends   int      `json:"max_sends"`   // per instance (0 = unlimited)
	NewestOnly bool     `json:"newest_only"` // merges only of the newest snapshot of another instance
	OwnKeys    bool     `json:"own_keys"`    // instance i writes only Keys[i]
	Prefix     []string `json:"prefix"`      // scripted events applied before the search starts
	NoDelete   bool     `json:"no_delete"`
	// Outage: event O<i> = the sync loop's upload attempt of a dirty instance while every Store call fails (at most
	// once per history). LoopRule: the closure uploads like the sync loop does (only instances whose LMDB changed
	// since the last transaction the loop considers synced), instead of forcing an upload from everybody.
	Outage   bool `json:"outage"`
	LoopRule bool `json:"loop_rule"`
}

const base = uint64(1_000_000_000_000_000_000) // logical epoch, far from 0/1 special values
const step = uint64(250_000_000) // 250 ms per tick: consecutive snapshots of an instance often fall into the same second (names have ns resolution)

type Fleet struct {
	Cfg        Cfg
	B          *world.Bucket
	I          []*inst.Inst
	LastSynced []header.TxnID
	Clock      uint64
	ClockUser  int // instance that last used the current clock value, -1 none
	NSends     []int
	outages    int
	// Written records every version the applications wrote (native mode), per "dbi/key".
	Written map[string][]world.Ver
	// AppVals records values the applications wrote / deleted (shadow mode), per "dbi/key".
	AppVals map[string]map[string]bool
	// LastOp records, per "dbi/key" and instance, the last application operation ("v:<value>" or "\x00DEL").
	LastOp map[string]map[int]string
	// Seen records every version observed anywhere after any event.
	Seen map[string]map[world.Ver]bool
	Hist []string
	// monitor of C05: join over the newest snapshot of every instance, must never move backwards
	prevJ    map[string]world.Ver
	MonViols []string
	// harness-side shadow of the cleaners' first-seen bookkeeping, used only for state deduplication
	firstSeen []map[string]uint64
	// harness-side shadow of each syncer's lastByInstance map (last merged snapshot per source instance)
	lastLoaded []map[string]string
}

// Install installs the harness clock and disables the explicit GC in the code under test.
func (f *Fleet) Install() {
	verifhook.SetNow(func(site string, t time.Time) time.Time { return time.Unix(0, int64(f.Clock)) })
	verifhook.SetSkip(func(site string) bool { return site == "utils.GC" })
}

func New(cfg Cfg) *Fleet {
	f := &Fleet{Cfg: cfg, B: world.NewBucket(), Clock: base, ClockUser: -1,
		LastOp: map[string]map[int]string{}, Written: map[string][]world.Ver{}, AppVals: map[string]map[string]bool{}, Seen: map[string]map[world.Ver]bool{}}
	for i := 0; i < cfg.N; i++ {
		f.I = append(f.I, f.newInst(i, nil))
		f.LastSynced = append(f.LastSynced, 0)
		f.NSends = append(f.NSends, 0)
	}
	f.Install()
	for _, e := range cfg.Prefix {
		if err := f.Apply(e); err != nil {
			panic(fmt.Sprintf("scripted prefix event %s: %v", e, err))
		}
	}
	f.Hist = nil
	return f
}

func (f *Fleet) newInst(i int, env *world.Env) *inst.Inst {
	o := inst.Opt{Native: f.Cfg.Native, Padding: f.Cfg.Padding, Env: env}
	if f.Cfg.Cleaner {
		o.Cleanup = &config.Cleanup{Enabled: true, Interval: time.Hour, MustKeepInterval: time.Duration(f.Cfg.KeepNS), RemoveOldInstancesInterval: time.Duration(f.Cfg.StaleNS)}
	}
	return inst.New(string(rune('a'+i)), f.B, o)
}

func (f *Fleet) Close() {
	for _, i := range f.I {
		i.Destroy()
	}
	verifhook.SetNow(nil)
}

func splitKey(dk string) (string, []byte) {
	d, k, _ := strings.Cut(dk, "/")
	return d, []byte(k)
}

func (f *Fleet) dbiFlags() uint {
	if f.Cfg.IntKey {
		return 0x08
	}
	return 0
}

// nativeLocal returns the locally stored version of a key (native mode).
func (f *Fleet) local(i int, dk string) (world.Ver, bool) {
	d, k := splitKey(dk)
	lc := f.LC(i)
	v, ok := lc[d][string(k)]
	return v, ok
}

// LC returns the logical content of instance i (native: application DBIs, shadow: shadow DBIs).
func (f *Fleet) LC(i int) world.LC {
	pick := world.PickNative
	if !f.Cfg.Native {
		pick = world.PickShadow
	}
	lc, err := world.HeaderLC(f.I[i].Env.RawDump(), pick)
	if err != nil {
		panic(fmt.Sprintf("instance %d: %v", i, err))
	}
	return lc
}

// App returns the application-visible content of instance i: dbi -> key -> value.
func (f *Fleet) App(i int) map[string]map[string]string {
	if f.Cfg.Native {
		out := map[string]map[string]string{}
		for d, m := range f.LC(i) {
			out[d] = map[string]string{}
			for k, v := range m {
				if !v.Deleted {
					out[d][k] = v.Val
				}
			}
		}
		return out
	}
	return world.PlainContent(f.I[i].Env.RawDump(), world.PickNative)
}

// Blobs returns the bucket's names in order.
func (f *Fleet) Blobs() []string { return f.B.Names() }

// Newest returns the newest snapshot name of instance index j ("" if none).
func (f *Fleet) Newest(j int) string {
	pre := inst.DBName + "__" + f.I[j].Name + "__"
	best := ""
	for _, n := range f.B.Names() {
		if strings.HasPrefix(n, pre) {
			best = n
		}
	}
	return best
}

func (f *Fleet) canTie(i int) bool {
	return f.Cfg.NoTick && f.ClockUser >= 0 && f.ClockUser != i
}

// Enabled lists the events enabled in the current state, simplest first.
func (f *Fleet) Enabled() []string {
	var evs []string
	modes := func(i int) []string {
		m := []string{"+"}
		if f.canTie(i) {
			m = append(m, "=")
		}
		return m
	}
	for i := 0; i < f.Cfg.N; i++ {
		if f.Cfg.Silent == i && f.NSends[i] >= 1 {
			continue
		}
		for ki, dk := range f.Cfg.Keys {
			if f.Cfg.OwnKeys && ki != i {
				continue
			}
			for vi := range f.Cfg.Vals {
				for _, m := range modes(i) {
					evs = append(evs, fmt.Sprintf("P%d:%s:%d%s", i, dk, vi, m))
				}
				if f.Cfg.Native && f.Cfg.TS0 {
					if _, ok := f.local(i, dk); !ok {
						evs = append(evs, fmt.Sprintf("P%d:%s:%d0", i, dk, vi))
					}
				}
			}
			// delete only what exists locally (shadow: key in app DBI; native: entry live)
			d, k := splitKey(dk)
			if _, ok := f.App(i)[d][string(k)]; ok && !f.Cfg.NoDelete {
				for _, m := range modes(i) {
					evs = append(evs, fmt.Sprintf("D%d:%s%s", i, dk, m))
				}
			}
		}
	}
	for i := 0; i < f.Cfg.N; i++ {
		if f.Cfg.Silent == i && f.NSends[i] >= 1 {
			continue
		}
		if f.Cfg.MaxSends > 0 && f.NSends[i] >= f.Cfg.MaxSends {
			continue
		}
		if f.I[i].Env.LastTxnID() == 0 {
			continue // the loop never uploads an empty LMDB
		}
		for _, m := range modes(i) {
			evs = append(evs, fmt.Sprintf("S%d%s", i, m))
		}
	}
	if f.Cfg.Outage && f.outages == 0 {
		for i := 0; i < f.Cfg.N; i++ {
			if last := f.I[i].Env.LastTxnID(); last > 0 && header.TxnID(last) > f.LastSynced[i] {
				evs = append(evs, fmt.Sprintf("O%d", i))
			}
		}
	}
	blobs := f.Blobs()
	for i := 0; i < f.Cfg.N; i++ {
		if f.Cfg.Silent == i && f.NSends[i] >= 1 {
			continue
		}
		for bi := range blobs {
			if f.Cfg.NewestOnly {
				isNewest := false
				for j := range f.I {
					if j != i && f.Newest(j) == blobs[bi] {
						isNewest = true
					}
				}
				if !isNewest {
					continue
				}
			}
			evs = append(evs, fmt.Sprintf("L%d:%d", i, bi))
		}
	}
	if f.Cfg.Cleaner {
		for i := 0; i < f.Cfg.N; i++ {
			if f.Cfg.Silent == i && f.NSends[i] >= 1 {
				continue
			}
			evs = append(evs, fmt.Sprintf("C%d", i))
			if f.Cfg.Restart {
				evs = append(evs, fmt.Sprintf("R%d", i))
			}
		}
		evs = append(evs, "Tkeep", "Tstale")
	}
	return evs
}

func (f *Fleet) tick(i int, mode string) {
	if mode == "=" {
		// same clock value as the previous event (of another instance)
	} else {
		f.Clock += step
	}
	f.ClockUser = i
}

// ImplError is an error returned by the implementation during an event.
type ImplError struct {
	Event string
	Err   error
}

func (e ImplError) Error() string { return e.Event + ": " + e.Err.Error() }

// Apply applies one event. An ImplError is returned if the code under test fails.
func (f *Fleet) Apply(ev string) error {
	f.Hist = append(f.Hist, ev)
	kind := ev[0]
	rest := ev[1:]
	switch kind {
	case 'P', 'D':
		mode := rest[len(rest)-1:]
		rest = rest[:len(rest)-1]
		parts := strings.Split(rest, ":")
		i, _ := strconv.Atoi(parts[0])
		dk := parts[1]
		d, k := splitKey(dk)
		var val []byte
		if kind == 'P' {
			vi, _ := strconv.Atoi(parts[2])
			val = []byte(f.Cfg.Vals[vi])
		}
		ts := uint64(0)
		if mode != "0" {
			f.tick(i, mode)
			ts = f.Clock
		}
		f.I[i].AppTxn(func(txn *lmdb.Txn) error {
			if f.Cfg.Native {
				inst.NativePut(txn, d, k, ts, kind == 'D', val)
			} else if kind == 'P' {
				inst.PlainPut(txn, d, f.dbiFlags(), k, val)
			} else {
				inst.PlainDel(txn, d, f.dbiFlags(), k, nil)
			}
			return nil
		})
		if f.LastOp[dk] == nil {
			f.LastOp[dk] = map[int]string{}
		}
		if kind == 'D' {
			f.LastOp[dk][i] = "\x00DEL"
		} else {
			f.LastOp[dk][i] = "v:" + string(val)
		}
		if f.Cfg.Native {
			f.Written[dk] = append(f.Written[dk], world.Ver{TS: ts, Deleted: kind == 'D', Val: string(val)})
		} else {
			if f.AppVals[dk] == nil {
				f.AppVals[dk] = map[string]bool{}
			}
			if kind == 'D' {
				f.AppVals[dk]["\x00DEL"] = true
			} else {
				f.AppVals[dk]["v:"+string(val)] = true
			}
		}
	case 'S':
		mode := rest[len(rest)-1:]
		i, _ := strconv.Atoi(rest[:len(rest)-1])
		f.tick(i, mode)
		id, err := f.I[i].Send()
		if err != nil {
			return ImplError{ev, err}
		}
		f.LastSynced[i] = id
		f.NSends[i]++
	case 'O': // upload attempt during a storage outage: every Store call fails
		i, _ := strconv.Atoi(rest)
		f.tick(i, "+")
		f.outages++
		f.B.Hook = func(op, name string) error {
			if op == "store" {
				return fmt.Errorf("injected storage outage")
			}
			return nil
		}
		verifhook.SetSleep(func(context.Context, time.Duration) (bool, error) { return true, nil }) // retry sleeps take no time
		id, err := f.I[i].Send()
		verifhook.SetSleep(nil)
		f.B.Hook = nil
		if err == nil {
			// the loop takes the change for uploaded (an error would end Sync; the restarted loop starts over)
			f.LastSynced[i] = id
		}
	case 'L':
		parts := strings.Split(rest, ":")
		i, _ := strconv.Atoi(parts[0])
		bi, _ := strconv.Atoi(parts[1])
		blobs := f.Blobs()
		if bi >= len(blobs) {
			return fmt.Errorf("replay divergence: blob index %d of %d", bi, len(blobs))
		}
		if !f.Cfg.Native {
			f.tick(i, "+")
		}
		data, _ := f.B.Get(blobs[bi])
		id, changed, err := f.I[i].Load(blobs[bi], data, f.LastSynced[i])
		if err != nil {
			return ImplError{ev, err}
		}
		for len(f.lastLoaded) < len(f.I) {
			f.lastLoaded = append(f.lastLoaded, map[string]string{})
		}
		if ni, perr := snapshot.ParseName(blobs[bi]); perr == nil {
			f.lastLoaded[i][ni.InstanceID] = blobs[bi]
		}
		if !changed {
			f.LastSynced[i] = id
		}
	case 'C': // cleaner run on instance i
		i, _ := strconv.Atoi(rest)
		f.Clock += step
		for len(f.firstSeen) < len(f.I) {
			f.firstSeen = append(f.firstSeen, map[string]uint64{})
		}
		for _, n := range f.B.Names() {
			if _, ok := f.firstSeen[i][n]; !ok {
				f.firstSeen[i][n] = f.Clock
			}
		}
		if err := f.I[i].S.VerifCleaner().RunOnce(context.Background(), time.Unix(0, int64(f.Clock))); err != nil {
			return ImplError{ev, err}
		}
	case 'T': // clock advance by named amount
		switch rest {
		case "keep":
			f.Clock += uint64(f.Cfg.KeepNS) + 1
		case "stale":
			f.Clock += uint64(f.Cfg.StaleNS) + 1
		default:
			f.Clock += step
		}
		f.ClockUser = -1
	case 'R': // restart instance i with its LMDB kept: new Syncer object (all in-memory state lost)
		i, _ := strconv.Atoi(rest)
		env := f.I[i].Env
		f.I[i] = f.newInst(i, env)
		f.LastSynced[i] = 0
		if i < len(f.firstSeen) {
			f.firstSeen[i] = map[string]uint64{}
		}
		if i < len(f.lastLoaded) {
			f.lastLoaded[i] = map[string]string{}
		}
	default:
		return fmt.Errorf("unknown event %q", ev)
	}
	f.observe()
	f.monitor(ev)
	return nil
}

// monitor recomputes the join over the newest snapshot of every instance and
// checks that no key moved backwards or vanished (C05).
func (f *Fleet) monitor(ev string) {
	j := map[string]world.Ver{}
	for i := range f.I {
		n := f.Newest(i)
		if n == "" {
			continue
		}
		data, _ := f.B.Get(n)
		lc, _, err := SnapLC(data)
		if err != nil {
			continue
		}
		for d, m := range lc {
			for k, v := range m {
				if cur, ok := j[d+"/"+k]; !ok || v.TS > cur.TS {
					j[d+"/"+k] = v
				}
			}
		}
	}
	for k, old := range f.prevJ {
		now, ok := j[k]
		if !ok {
			f.MonViols = append(f.MonViols, fmt.Sprintf("after %s the newest snapshots of all instances no longer contain key %s (was %v); bucket: %v", ev, k, old, f.B.Names()))
		} else if now.TS < old.TS {
			f.MonViols = append(f.MonViols, fmt.Sprintf("after %s key %s went back from %v to %v in the join of the newest snapshots", ev, k, old, now))
		}
	}
	f.prevJ = j
}

// SnapLC decodes a snapshot blob to logical content.
func SnapLC(data []byte) (world.LC, *snapshot.Snapshot, error) {
	s, err := snapshot.LoadData(data)
	if err != nil {
		return nil, nil, err
	}
	lc := world.LC{}
	for _, d := range s.Databases {
		m := map[string]world.Ver{}
		d.ResetCursor()
		for {
			kv, err := d.Next()
			if err == io.EOF {
				break
			}
			if err != nil {
				return nil, nil, err
			}
			del := kv.Flags&1 != 0
			m[string(kv.Key)] = world.Ver{TS: kv.TimestampNano, Deleted: del, Val: string(kv.Value)}
		}
		lc[d.Name()] = m
	}
	return lc, s, nil
}

func (f *Fleet) observe() {
	add := func(lc world.LC) {
		for d, m := range lc {
			for k, v := range m {
				dk := d + "/" + k
				if f.Seen[dk] == nil {
					f.Seen[dk] = map[world.Ver]bool{}
				}
				f.Seen[dk][v] = true
			}
		}
	}
	for i := range f.I {
		add(f.LC(i))
	}
}

// Canon returns the canonical state key: timestamps replaced by their rank
// (0 stays 0), local transaction ids dropped.
func (f *Fleet) Canon() string {
	// collect timestamps
	tsSet := map[uint64]bool{}
	lcs := make([]world.LC, len(f.I))
	for i := range f.I {
		lcs[i] = f.LC(i)
		for _, m := range lcs[i] {
			for _, v := range m {
				tsSet[v.TS] = true
			}
		}
	}
	type blob struct {
		inst string
		ts   uint64
		lc   world.LC
	}
	var blobs []blob
	for _, n := range f.B.Names() {
		ni, err := snapshot.ParseName(n)
		if err != nil {
			continue
		}
		data, _ := f.B.Get(n)
		lc, _, err := SnapLC(data)
		if err != nil {
			lc = world.LC{"<undecodable>": {}}
		}
		ts := uint64(ni.Timestamp.UnixNano())
		tsSet[ts] = true
		for _, m := range lc {
			for _, v := range m {
				tsSet[v.TS] = true
			}
		}
		blobs = append(blobs, blob{ni.InstanceID, ts, lc})
	}
	tsSet[f.Clock] = true
	var all []uint64
	for t := range tsSet {
		if t != 0 {
			all = append(all, t)
		}
	}
	sort.Slice(all, func(i, j int) bool { return all[i] < all[j] })
	rank := map[uint64]uint64{0: 0}
	for i, t := range all {
		rank[t] = uint64(i + 1)
	}
	rlc := func(lc world.LC) string {
		out := world.LC{}
		for d, m := range lc {
			out[d] = map[string]world.Ver{}
			for k, v := range m {
				v.TS = rank[v.TS]
				out[d][k] = v
			}
		}
		return out.String()
	}
	var sb strings.Builder
	for i := range f.I {
		dirty := header.TxnID(f.I[i].Env.LastTxnID()) != f.LastSynced[i]
		fmt.Fprintf(&sb, "I%d{%s|app:%s|dirty:%v|sends:%d}", i, rlc(lcs[i]), world.PlainString(f.App(i)), dirty, min(f.NSends[i], 1))
	}
	for _, b := range blobs {
		fmt.Fprintf(&sb, "B{%s@%d:%s}", b.inst, rank[b.ts], rlc(b.lc))
	}
	fmt.Fprintf(&sb, "clk:%d user:%d out:%d", rank[f.Clock], f.ClockUser, f.outages)
	if f.Cfg.Cleaner {
		// the cleaner's first-seen bookkeeping and committed map are hidden state: keep the history tail that touches them
		for i := range f.I {
			fmt.Fprintf(&sb, "|C%d:%v", i, f.cleanerState(i))
		}
	}
	return sb.String()
}

func (f *Fleet) cleanerState(i int) string {
	w := f.I[i].S.VerifCleaner()
	var parts []string
	for j := range f.I {
		t := w.GetCommitted(f.I[j].Name)
		if !t.IsZero() {
			parts = append(parts, fmt.Sprintf("%s:%d", f.I[j].Name, t.UnixNano()-int64(base)))
		}
	}
	// the real bookkeeping of the syncer and its cleaner (not a harness mirror of it), rendered relative
	// to the bucket listing and the clock
	var runs []string
	names := f.B.Names()
	var ll []string
	for src, t := range f.I[i].S.VerifLastByInstance() {
		idx := -1
		for bi, n := range names {
			if ni, err := snapshot.ParseName(n); err == nil && ni.InstanceID == src && ni.Timestamp.Equal(t) {
				idx = bi
			}
		}
		ll = append(ll, fmt.Sprintf("%s=%d", src, idx))
	}
	sort.Strings(ll)
	runs = append(runs, "loaded:"+strings.Join(ll, ","))
	fs := w.VerifFirstSeen()
	for bi, n := range names {
		if t, ok := fs[n]; ok {
			runs = append(runs, fmt.Sprintf("%d:%d", bi, (int64(f.Clock)-t.UnixNano())/int64(step)))
		}
	}
	for n := range fs {
		if sort.SearchStrings(names, n) == len(names) || names[sort.SearchStrings(names, n)] != n {
			in := "?"
			if ni, err := snapshot.ParseName(n); err == nil {
				in = ni.InstanceID
			}
			runs = append(runs, "gone:"+in) // remembered although no longer listed (forgotten at the next run)
		}
	}
	var ig []string
	for n := range w.VerifIgnored() {
		ig = append(ig, n)
	}
	sort.Strings(ig)
	runs = append(runs, "ign:"+strings.Join(ig, ","))
	return strings.Join(parts, ",") + "/" + strings.Join(runs, ",")
}

func Hash(s string) string {
	h := sha256.Sum256([]byte(s))
	return hex.EncodeToString(h[:12])
}

// Replay builds a fresh fleet and applies a history.
func Replay(cfg Cfg, hist []string) (*Fleet, error) {
	f := New(cfg)
	for _, e := range hist {
		if err := f.Apply(e); err != nil {
			return f, err
		}
	}
	return f, nil
}

// Closure runs the quiescent closing phase: repeat {every instance uploads;
// every instance merges the newest snapshot of every other instance} until
// nothing changes. Returns the number of rounds used, -1 if the cap was hit.
func (f *Fleet) Closure(maxRounds int) (int, error) {
	state := func() string {
		var sb strings.Builder
		for i := range f.I {
			sb.WriteString(f.LC(i).String())
			sb.WriteString(world.PlainString(f.App(i)))
			sb.WriteString("|")
		}
		return sb.String()
	}
	for round := 1; round <= maxRounds; round++ {
		before := state()
		for i := range f.I {
			if f.I[i].Env.LastTxnID() == 0 {
				continue
			}
			if f.Cfg.LoopRule && header.TxnID(f.I[i].Env.LastTxnID()) <= f.LastSynced[i] {
				continue // the loop sees nothing to upload
			}
			if err := f.Apply(fmt.Sprintf("S%d+", i)); err != nil {
				return round, err
			}
		}
		for i := range f.I {
			for j := range f.I {
				if i == j {
					continue
				}
				n := f.Newest(j)
				if n == "" {
					continue
				}
				bi := sort.SearchStrings(f.Blobs(), n)
				if err := f.Apply(fmt.Sprintf("L%d:%d", i, bi)); err != nil {
					return round, err
				}
			}
		}
		if state() == before && round > 1 {
			return round, nil
		}
	}
	return -1, nil
}
