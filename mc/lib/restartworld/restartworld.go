// Package restartworld is the crash/restart scenario of engine E3 (C05a): the
// real sync loop of instance "a" is stopped at any of its decision points and
// restarted with its LMDB kept or emptied; the application writes (monotone per
// key), storage calls fail. A monitor on the bucket checks that the join over
// the newest snapshot of every instance never loses a key or moves it back.
package restartworld

import (
	"context"
	"errors"
	"fmt"
	"sort"
	"strings"
	"sync"
	"time"

	"github.com/PowerDNS/lightningstream/config"
	"github.com/PowerDNS/lightningstream/snapshot"
	"github.com/PowerDNS/lightningstream/utils/verifhook"
	"github.com/PowerDNS/lmdb-go/lmdb"

	"verif/lib/explore"
	"verif/lib/fleet"
	"verif/lib/inst"
	"verif/lib/loopworld"
	"verif/lib/sched"
	"verif/lib/world"
)

type Cfg struct {
	Native   bool `json:"native"`
	MaxLives int  `json:"max_lives"`
	Faults   bool `json:"faults"`
	// StartEmpty: the first life already starts with an emptied LMDB (the instance was just restarted
	// on a fresh machine); its own snapshot is in the bucket.
	StartEmpty bool `json:"start_empty"`
	// ForceInterval: storage_force_snapshot_interval is enabled; "the interval elapses" is an environment answer
	// offered whenever the loop sleeps (once per life).
	ForceInterval bool `json:"force_interval"`
	// OldEntries (native mode): the tomb sweeper is enabled (retention 1 day) and instance a's history holds live
	// entries older than the retention, one of them with an empty value (docs/schema.md recommends empty values).
	OldEntries bool `json:"old_entries"`
	// LongHistory: instance a committed many transactions before its last upload (its snapshot carries a high LMDB
	// transaction id; a wiped LMDB starts counting from zero again)
	LongHistory bool `json:"long_history"`
}

type Viol struct{ Sig, Msg string }

type Result struct {
	Outcome string
	Viols   []Viol
	Steps   int
}

const base = uint64(1_600_000_000_000_000_000)

type W struct {
	cfg        Cfg
	mu         sync.Mutex
	clock      uint64
	b          *world.Bucket
	viols      []Viol
	prevJ      map[string]world.Ver
	crashed    bool
	life       int
	ownAtStart string // newest own snapshot when this life started
	ownMerged  bool
	ownLoaded  bool
	puts       int
	lastEvent  string
	overdue    bool // the forced-snapshot interval elapses before the loop's next deadline check
	putLife    int  // life in which the application last wrote
	putHook    string
}

func (w *W) now() uint64 {
	w.mu.Lock()
	defer w.mu.Unlock()
	w.clock += 1000
	return w.clock
}

func (w *W) viol(sig, msg string) {
	for _, v := range w.viols {
		if v.Sig == sig {
			return
		}
	}
	w.viols = append(w.viols, Viol{sig, msg})
}

func (w *W) newest(instance string) string {
	n := ""
	for _, name := range w.b.Names() {
		if strings.HasPrefix(name, inst.DBName+"__"+instance+"__") {
			n = name
		}
	}
	return n
}

func (w *W) monitor(what string) {
	j := map[string]world.Ver{}
	for _, in := range []string{"a", "b"} {
		n := w.newest(in)
		if n == "" {
			continue
		}
		data, _ := w.b.Get(n)
		lc, _, err := fleet.SnapLC(data)
		if err != nil {
			w.viol("uploaded-snapshot-undecodable", n)
			continue
		}
		for d, m := range lc {
			for k, v := range m {
				if cur, ok := j[d+"/"+k]; !ok || v.TS > cur.TS {
					j[d+"/"+k] = v
				}
			}
		}
	}
	for k, old := range w.prevJ {
		now, ok := j[k]
		mode := map[bool]string{true: "native", false: "shadow"}[w.cfg.Native]
		if !ok {
			w.viol("published-data-lost:"+mode+":life"+fmt.Sprint(min(w.life, 1)), fmt.Sprintf("after %s (life %d, last event %s) the newest snapshots no longer contain key %s (was %v); bucket %v", what, w.life, w.lastEvent, k, old, w.b.Names()))
		} else if now.TS < old.TS {
			w.viol("published-data-moved-back:"+mode, fmt.Sprintf("after %s key %s went back from %v to %v", what, k, old, now))
		}
	}
	w.prevJ = j
}

func Run(cfg Cfg, ctx *explore.Ctx) Result {
	if cfg.MaxLives == 0 {
		cfg.MaxLives = 3
	}
	w := &W{cfg: cfg, clock: base, b: world.NewBucket()}
	verifhook.SetSkip(func(string) bool { return true })
	verifhook.SetNow(func(site string, t time.Time) time.Time {
		if site == "sync.lastSnapshotTime" {
			// the deadline of the periodic forced snapshot: real time unless the harness lets the interval elapse
			w.mu.Lock()
			defer w.mu.Unlock()
			if w.overdue {
				w.overdue = false
				return t.Add(-1000 * time.Hour)
			}
			return t
		}
		return time.Unix(0, int64(w.now()))
	})
	defer verifhook.SetNow(nil)
	opt := inst.Opt{Native: cfg.Native, Tweak: func(c *config.Config, lc *config.LMDB) {
		c.StorageRetryCount = 3
		if cfg.OldEntries {
			c.Sweeper = config.Sweeper{Enabled: true, RetentionDays: 1, Interval: 11 * time.Minute, FirstInterval: 11 * time.Minute, LockDuration: time.Second, ReleaseDuration: time.Second}
		}
		if cfg.ForceInterval {
			c.StorageForceSnapshotInterval = 100 * time.Hour
		}
	}}

	put := func(a *inst.Inst, k, v string) {
		a.AppTxn(func(txn *lmdb.Txn) error {
			if cfg.Native {
				inst.NativePut(txn, "d", []byte(k), w.now(), false, []byte(v))
			} else {
				inst.PlainPut(txn, "d", 0, []byte(k), []byte(v))
			}
			return nil
		})
	}
	// history before the explored part: b has published kb; a has written ka and published it
	bi := inst.New("b", w.b, opt)
	put(bi, "kb", "b1")
	if _, err := bi.Send(); err != nil {
		panic(err)
	}
	bi.Destroy()
	a := inst.New("a", w.b, opt)
	put(a, "ka", "a1")
	if cfg.LongHistory {
		for n := 0; n < 12; n++ {
			put(a, "kh", fmt.Sprintf("h%d", n))
		}
	}
	if cfg.OldEntries && cfg.Native {
		old := w.clock - uint64(48*time.Hour)
		a.AppTxn(func(txn *lmdb.Txn) error {
			inst.NativePut(txn, "d", []byte("kold-empty"), old, false, nil)
			inst.NativePut(txn, "d", []byte("kold"), old+1, false, []byte("v"))
			return nil
		})
	}
	if _, err := a.Send(); err != nil {
		panic(err)
	}
	w.monitor("setup")
	w.b.AfterMutate = func(op, name string) { w.monitor(op + " " + name) }

	totalSteps := 0
	outcome := "idle"
	next := "keep" // how the first life starts: the LMDB as left by the history
	if cfg.StartEmpty {
		next = "empty"
	}
	for w.life = 0; w.life < cfg.MaxLives && next != ""; w.life++ {
		if next == "empty" {
			a.Destroy()
			a = inst.New("a", w.b, opt)
		} else if w.life > 0 {
			env := a.Env
			o := opt
			o.Env = env
			a = inst.New("a", w.b, o)
		}
		w.crashed = false
		w.ownAtStart = w.newest("a")
		w.ownMerged, w.ownLoaded = false, false
		next = w.runLife(a, ctx, &totalSteps, put)
		if next == "stuck" {
			outcome = "stuck"
			break
		}
	}
	a.Destroy()
	return Result{Outcome: fmt.Sprintf("%s/lives=%d/puts=%d", outcome, w.life, w.puts), Viols: w.viols, Steps: totalSteps}
}

// runLife runs one life of instance a. It returns "" when the loop went idle,
// or how the next life starts ("keep" / "empty") after a crash.
func (w *W) runLife(a *inst.Inst, ctx *explore.Ctx, totalSteps *int, put func(a *inst.Inst, k, v string)) string {
	cfg := w.cfg
	s := sched.New(ctx)
	s.ThreadOf = func(point, name, stack string) string {
		switch {
		case strings.Contains(stack, "(*Downloader).Run"):
			if strings.HasPrefix(point, "dl.") {
				return "dl:" + name
			}
			if ni, err := snapshot.ParseName(name); err == nil {
				return "dl:" + ni.InstanceID
			}
			return "dl:?"
		case strings.Contains(stack, "(*Receiver).Run("):
			return "receiver"
		case strings.Contains(stack, "cleaner.(*Worker).Run"):
			return "cleaner"
		case strings.Contains(stack, "(*Syncer).syncLoop"):
			return "sync"
		}
		t, _, _ := strings.Cut(point, ".")
		return t
	}
	s.SleepKey = func(d time.Duration) string {
		switch d {
		case inst.PollLMDB:
			return "lmdbpoll"
		case inst.PollStorage:
			return "storagepoll"
		case inst.RetryStorage:
			return "retry"
		case time.Second:
			return "initlist"
		}
		return "other"
	}
	s.ParkPoints = map[string]bool{"sync.start": true, "dl.loadonce": true}
	for _, p := range loopworld.LoopHooks {
		s.ParkPoints[p] = true
	}
	pending := 0
	storeFail := 0
	bucketVer, listedVer := 0, 0
	idle := 0
	activity := false
	lastSeq := 0
	polledBeforeRetry := false
	crash := ""
	w.b.Hook = func(op, name string) error {
		if w.crashed {
			return errors.New("process is gone")
		}
		answers := []string{"ok"}
		if cfg.Faults && (op == "store" || op == "load" || op == "list") {
			answers = []string{"ok", "fail"}
		}
		ans := s.Park("st."+op, name, answers)
		if w.crashed {
			return errors.New("process is gone")
		}
		w.mu.Lock()
		defer w.mu.Unlock()
		if ans == 1 {
			if op == "store" {
				storeFail++
			}
			return errors.New("injected storage failure")
		}
		switch op {
		case "load":
			if data, ok := w.b.Get(name); ok {
				if _, err := snapshot.LoadData(data); err == nil {
					pending++
				}
			}
			if name == w.ownAtStart {
				w.ownLoaded = true
			}
		case "store":
			storeFail = 0
			activity = true
			bucketVer++
			if w.ownAtStart != "" && !w.ownMerged {
				mode := map[bool]string{true: "native", false: "shadow"}[cfg.Native]
				w.viol("upload-before-own-snapshot-merged:"+mode, fmt.Sprintf("life %d: instance a stores %s although its own newest snapshot %s has not been merged yet (last event %s)", w.life, name, w.ownAtStart, w.lastEvent))
			}
		case "list":
			listedVer = bucketVer
		}
		return nil
	}
	loopFirsts := 0
	bgPending := false
	overdueUsed := false
	var lmdbPoll func(loop, recvSleep, retrySleep *sched.P) []sched.Choice
	// book: bookkeeping when the loop goroutine is seen at a new park
	book := func(loop *sched.P) {
		if loop.Seq() == lastSeq {
			return
		}
		lastSeq = loop.Seq()
		switch loop.Point {
		case "sleep.lmdbpoll":
			if activity || bgPending {
				idle = 0
			} else {
				idle++
			}
			activity = false
		case "sync.beforeLoad":
			if pending > 0 {
				pending--
			}
		case "sync.afterLoad":
			activity = true
			if w.ownLoaded {
				w.ownMerged = true
			}
		}
	}
	s.Policy = func(s *sched.Sched, parked []*sched.P) []sched.Choice {
		var loop, recvSleep, retrySleep *sched.P
		var background []*sched.P
		for _, p := range parked {
			switch {
			case p.Thread == "sync" || p.Thread == "syncmain":
				loop = p
			case p.Point == "sleep.other":
				// timers of the tomb sweeper (it only enables the load cutoff here) never fire in this scenario
			case p.Point == "sleep.storagepoll":
				recvSleep = p
			case p.Point == "sleep.retry" && p.Thread != "sync" && p.Thread != "syncmain":
				if retrySleep == nil {
					retrySleep = p
				}
			case strings.HasPrefix(p.Thread, "dl:") && (p.Point == "dl.loadonce" || p.Point == "st.load") && pending > 0:
			default:
				background = append(background, p)
			}
		}
		one := func(p *sched.P, ans int) []sched.Choice {
			l := p.Key()
			if len(p.Answers) > 0 {
				l += "=" + p.Answers[ans]
			}
			return []sched.Choice{{Label: l, P: p, Answer: ans}}
		}
		bgPending = len(background) > 0
		if len(background) > 0 {
			p := background[0]
			out := one(p, 0)
			if len(p.Answers) == 2 && p.Answers[1] == "fail" {
				out = append(out, sched.Choice{Label: p.Key() + "=fail", Cost: 1, P: p, Answer: 1})
			}
			// the loop is faster than the background work (e.g. the own snapshot is still downloading when the loop decides about an upload)
			if loop != nil && !strings.HasPrefix(loop.Point, "st.") && loop.Point != "start" && loopFirsts < 3 {
				lp := loop
				out = append(out, sched.Choice{Label: "loop-runs-first:" + loop.Key(), Cost: 1, Act: &sched.Action{Do: func() { loopFirsts++; book(lp); s.Release(lp, 0) }}})
			}
			return out
		}
		if loop == nil {
			return nil
		}
		arrived := loop.Seq() != lastSeq
		book(loop)
		w.lastEvent = loop.Point
		switch {
		case loop.Point == "sleep.lmdbpoll":
			out := lmdbPoll(loop, recvSleep, retrySleep)
			if cfg.ForceInterval && !overdueUsed {
				out = append(out, sched.Choice{Label: "force-snapshot-interval-elapses", Cost: 1, Act: &sched.Action{Do: func() {
					// ... and the loop's next iteration (its LMDB poll timer) comes before any other timer
					overdueUsed = true
					w.mu.Lock()
					w.overdue = true
					w.mu.Unlock()
					idle = 0
					s.Release(loop, 0)
				}}})
			}
			return out
		case strings.HasPrefix(loop.Point, "sleep."):
			return one(loop, 0)
		case strings.HasPrefix(loop.Point, "st."):
			out := one(loop, 0)
			if len(loop.Answers) == 2 && (loop.Point != "st.store" || storeFail < 2) {
				out = append(out, sched.Choice{Label: loop.Key() + "=fail", Cost: 1, P: loop, Answer: 1})
			}
			return out
		}
		_ = arrived
		out := one(loop, 0)
		if w.life+1 < cfg.MaxLives {
			for _, how := range []string{"keep", "empty"} {
				how := how
				out = append(out, sched.Choice{Label: "crash@" + loop.Point + "+restart-" + how, Cost: 1, Act: &sched.Action{Do: func() { crash = how }}})
			}
		}
		if w.puts < 2 {
			out = append(out, sched.Choice{Label: "app:put-ka@" + loop.Point, Cost: 1, Act: &sched.Action{Do: func() {
				w.puts++
				w.putLife = w.life
				w.putHook = loop.Point
				put(a, "ka", fmt.Sprintf("a%d", w.puts+1))
				idle = 0
			}}})
		}
		return out
	}
	lmdbPoll = func(loop, recvSleep, retrySleep *sched.P) []sched.Choice {
		{
			if retrySleep != nil {
				// a download failed: the storage poll (1 s) fires before the retry timer (5 s)
				idle = 0
				if recvSleep != nil && !polledBeforeRetry {
					return []sched.Choice{{Label: "receiver-polls", Act: &sched.Action{Do: func() { polledBeforeRetry = true; s.Release(recvSleep, 0) }}},
						{Label: "retry-timer-fires-first", Cost: 1, Act: &sched.Action{Do: func() { s.Release(retrySleep, 0) }}}}
				}
				return []sched.Choice{{Label: "retry-timer-fires", Act: &sched.Action{Do: func() { polledBeforeRetry = false; s.Release(retrySleep, 0) }}},
					{Label: "lmdb-poll-fires", Cost: 1, P: loop}}
			}
			if listedVer != bucketVer && recvSleep != nil {
				idle = 0
				return []sched.Choice{{Label: "receiver-polls", P: recvSleep}, {Label: "lmdb-poll-fires", Cost: 1, P: loop}}
			}
			return []sched.Choice{{Label: "lmdb-poll-fires", P: loop}}
		}
	}
	s.Install()
	cctx, cancel := context.WithCancel(context.Background())
	done := make(chan struct{})
	var syncErr error
	s.Go("syncmain", func() {
		syncErr = a.S.Sync(cctx)
		close(done)
	})
	result := ""
	for s.Steps < 1200 {
		if !s.Step() {
			select {
			case <-done:
				w.viol("sync-returned-unexpectedly", fmt.Sprintf("life %d: Sync returned %v", w.life, syncErr))
			default:
				var stuck []string
				for _, g := range s.BlockedManaged() {
					stuck = append(stuck, g.Top+"@"+g.State)
				}
				sort.Strings(stuck)
				w.viol("loop-stuck", fmt.Sprintf("life %d: nothing to schedule, Sync has not returned; blocked %v", w.life, stuck))
			}
			result = "stuck"
			break
		}
		if crash != "" {
			result = crash
			break
		}
		if idle >= 2 {
			// C09 seen from a restarted instance: the loop is idle, so the newest own snapshot holds the last value the
			// application wrote to ka in this life
			// (shadow mode: a change made before the start-up capture counts as made while the syncer was down, which
			// is documented to lose against the instance's own older snapshot)
			beforeCapture := w.putHook == "start" || w.putHook == "sync.start" || w.putHook == "sync.beforeStartupCapture"
			if w.puts > 0 && w.putLife == w.life && (cfg.Native || !beforeCapture) {
				want := fmt.Sprintf("a%d", w.puts+1)
				if n := w.newest("a"); n != "" {
					data, _ := w.b.Get(n)
					if lc, _, err := fleet.SnapLC(data); err == nil {
						if v, ok := lc["d"]["ka"]; !ok || v.Deleted || v.Val != want {
							mode := map[bool]string{true: "native", false: "shadow"}[cfg.Native]
							if !cfg.Native && w.putHook == "send.afterTxn" {
								// the commit landed in the window behind SendOnce's write transaction (see the C03/C09
								// findings on that window): named, so that it is told apart from any other loss
								mode += ":commit@send.afterTxn"
							}
							w.viol("c09:restart:"+mode+":not-published", fmt.Sprintf("life %d: the loop is idle, the application wrote ka=%s in this life, the newest own snapshot %s has %v (present=%v)", w.life, want, n, v, ok))
						}
					}
				}
			}
			break
		}
	}
	if s.Steps >= 1200 {
		w.viol("loop-never-goes-idle", fmt.Sprintf("life %d", w.life))
		result = "stuck"
	}
	*totalSteps += s.Steps
	// the process dies here (crash) or is shut down (end of the execution): nothing reaches the bucket any more
	w.crashed = true
	cancel()
	s.Uninstall()
	s.Drain()
	select {
	case <-done:
	case <-time.After(20 * time.Second):
		w.viol("sync-does-not-return-after-cancel", fmt.Sprintf("life %d", w.life))
	}
	s.WaitGone(5 * time.Second)
	w.b.Hook = nil
	return result
}
