// Package par runs tasks on a pool of worker subprocesses (re-exec of the
// current binary). Workers are separate processes because the code under test
// has process-global state (hook function pointers, metrics, healthz) and
// because a panic under an LMDB write lock poisons the process.
package par

import (
	"bytes"
	"encoding/binary"
	"fmt"
	"io"
	"os"
	"os/exec"
	"runtime"
	"strings"
	"sync"
	"time"
)

type Handler func(task []byte) []byte

const envWorker = "VERIF_PAR_WORKER"

// ServeIfWorker turns the process into a worker if it was started as one. It
// never returns in that case.
func ServeIfWorker(handlers map[string]Handler) {
	if os.Getenv(envWorker) == "" {
		return
	}
	in := os.NewFile(3, "tasks")
	out := os.NewFile(4, "results")
	for {
		kind, payload, err := readFrame(in)
		if err != nil {
			os.Exit(0)
		}
		h := handlers[kind]
		if h == nil {
			fmt.Fprintf(os.Stderr, "worker: unknown task kind %q\n", kind)
			os.Exit(3)
		}
		res := h(payload)
		if err := writeFrame(out, kind, res); err != nil {
			os.Exit(0)
		}
	}
}

func writeFrame(w io.Writer, kind string, payload []byte) error {
	var hdr [8]byte
	binary.LittleEndian.PutUint32(hdr[0:4], uint32(len(kind)))
	binary.LittleEndian.PutUint32(hdr[4:8], uint32(len(payload)))
	buf := make([]byte, 0, 8+len(kind)+len(payload))
	buf = append(buf, hdr[:]...)
	buf = append(buf, kind...)
	buf = append(buf, payload...)
	_, err := w.Write(buf)
	return err
}

func readFrame(r io.Reader) (string, []byte, error) {
	var hdr [8]byte
	if _, err := io.ReadFull(r, hdr[:]); err != nil {
		return "", nil, err
	}
	kl := binary.LittleEndian.Uint32(hdr[0:4])
	pl := binary.LittleEndian.Uint32(hdr[4:8])
	buf := make([]byte, kl+pl)
	if _, err := io.ReadFull(r, buf); err != nil {
		return "", nil, err
	}
	return string(buf[:kl]), buf[kl:], nil
}

type worker struct {
	cmd    *exec.Cmd
	in     *os.File // we write tasks
	out    *os.File // we read results
	stderr *tailBuf
}

type tailBuf struct {
	mu sync.Mutex
	b  []byte
}

func (t *tailBuf) Write(p []byte) (int, error) {
	t.mu.Lock()
	defer t.mu.Unlock()
	t.b = append(t.b, p...)
	if len(t.b) > 16384 {
		t.b = t.b[len(t.b)-16384:]
	}
	return len(p), nil
}
func (t *tailBuf) String() string {
	t.mu.Lock()
	defer t.mu.Unlock()
	return string(t.b)
}

// Pool is a pool of worker subprocesses.
type Pool struct {
	N       int
	MemKB   int64         // ulimit -v in KB (0 = 8 GB)
	Timeout time.Duration // per task (0 = 10 min); a timeout kills the worker
	Env     []string
	Recycle int // restart a worker after this many tasks (0 = never)
}

func DefaultWorkers() int {
	n := runtime.NumCPU()
	if n > 16 {
		n = 16
	}
	if n < 1 {
		n = 1
	}
	return n
}

func (p *Pool) spawn() (*worker, error) {
	exe, err := os.Executable()
	if err != nil {
		return nil, err
	}
	tr, tw, err := os.Pipe()
	if err != nil {
		return nil, err
	}
	rr, rw, err := os.Pipe()
	if err != nil {
		return nil, err
	}
	mem := p.MemKB
	if mem == 0 {
		mem = 8 << 20
	}
	// ulimit -v through sh so a runaway allocation kills only the worker
	cmd := exec.Command("/bin/sh", "-c", fmt.Sprintf("ulimit -v %d; exec \"$0\" \"$@\"", mem), exe)
	cmd.Args = append(cmd.Args, os.Args[1:]...)
	// asyncpreemptoff: goroutines are descheduled at ordinary safe points only. runtime.Stack(all) has crashed (nil dereference in
	// the unwinder's own error path, go1.25.11) on a descheduled goroutine whose return pc it could not resolve.
	cmd.Env = append(os.Environ(), envWorker+"=1", "GOMAXPROCS=2", "GODEBUG=asyncpreemptoff=1")
	cmd.Env = append(cmd.Env, p.Env...)
	cmd.ExtraFiles = []*os.File{tr, rw}
	tb := &tailBuf{}
	cmd.Stderr = tb
	cmd.Stdout = tb
	if err := cmd.Start(); err != nil {
		return nil, err
	}
	tr.Close()
	rw.Close()
	return &worker{cmd: cmd, in: tw, out: rr, stderr: tb}, nil
}

func (w *worker) kill() {
	w.in.Close()
	_ = w.cmd.Process.Kill()
	_ = w.cmd.Wait()
	w.out.Close()
}

// Result of one task. Err is set if the worker crashed or timed out while
// running it; Stderr then holds the tail of the worker's output.
type Result struct {
	Index  int
	Out    []byte
	Err    error
	Stderr string
}

// Map runs all tasks of one kind and calls onResult (serialised) for each.
// stop may be nil; if it returns true no further tasks are started.
func (p *Pool) Map(kind string, tasks [][]byte, onResult func(Result), stop func() bool) {
	n := p.N
	if n <= 0 {
		n = DefaultWorkers()
	}
	if n > len(tasks) {
		n = len(tasks)
	}
	timeout := p.Timeout
	if timeout == 0 {
		timeout = 10 * time.Minute
	}
	var mu sync.Mutex
	next := 0
	var wg sync.WaitGroup
	var cbMu sync.Mutex
	for i := 0; i < n; i++ {
		wg.Add(1)
		go func() {
			defer wg.Done()
			var w *worker
			done := 0
			defer func() {
				if w != nil {
					w.kill()
				}
			}()
			for {
				mu.Lock()
				if next >= len(tasks) || (stop != nil && stop()) {
					mu.Unlock()
					return
				}
				idx := next
				next++
				mu.Unlock()
				if w == nil {
					var err error
					w, err = p.spawn()
					if err != nil {
						cbMu.Lock()
						onResult(Result{Index: idx, Err: fmt.Errorf("spawn: %w", err)})
						cbMu.Unlock()
						return
					}
				}
				attempt := 0
			again:
				res := Result{Index: idx}
				if err := writeFrame(w.in, kind, tasks[idx]); err != nil {
					res.Err = fmt.Errorf("worker write: %w", err)
				} else {
					type rd struct {
						b   []byte
						err error
					}
					ch := make(chan rd, 1)
					go func() {
						_, b, err := readFrame(w.out)
						ch <- rd{b, err}
					}()
					select {
					case r := <-ch:
						res.Out, res.Err = r.b, r.err
						if r.err != nil {
							res.Err = fmt.Errorf("worker died: %w", r.err)
						}
					case <-time.After(timeout):
						res.Err = fmt.Errorf("worker timeout after %s", timeout)
					}
				}
				done++
				if res.Err != nil {
					time.Sleep(50 * time.Millisecond)
					res.Stderr = w.stderr.String()
					w.kill()
					w = nil
					// A worker that dies (as opposed to one that times out) gets the task again in a fresh process,
					// twice at most: only a crash that repeats is reported (the Go runtime itself has crashed once in
					// runtime.Stack under this harness; a crash caused by the task's input repeats).
					if attempt < 2 && !strings.Contains(res.Err.Error(), "timeout") {
						attempt++
						fmt.Fprintf(os.Stderr, "note: worker died on a task (attempt %d), retrying in a fresh worker: %v\n", attempt, res.Err)
						var err error
						if w, err = p.spawn(); err == nil {
							goto again
						}
					}
				} else if p.Recycle > 0 && done%p.Recycle == 0 {
					w.kill()
					w = nil
				}
				cbMu.Lock()
				onResult(res)
				cbMu.Unlock()
			}
		}()
	}
	wg.Wait()
}

// TrimStderr shortens a worker's stderr tail to the interesting part.
func TrimStderr(s string) string {
	if i := bytes.Index([]byte(s), []byte("panic:")); i >= 0 {
		s = s[i:]
	} else if i := bytes.Index([]byte(s), []byte("fatal error:")); i >= 0 {
		s = s[i:]
	}
	if len(s) > 1500 {
		s = s[:1500]
	}
	return s
}

// ForEach runs fn(worker, i) for i in [0,n) on `workers` goroutines of this
// process (for checks that do not touch process-global hooks).
func ForEach(n, workers int, fn func(worker, i int)) {
	if workers <= 0 {
		workers = DefaultWorkers()
	}
	if workers > n {
		workers = n
	}
	var mu sync.Mutex
	next := 0
	var wg sync.WaitGroup
	for w := 0; w < workers; w++ {
		wg.Add(1)
		go func(w int) {
			defer wg.Done()
			for {
				mu.Lock()
				i := next
				next++
				mu.Unlock()
				if i >= n {
					return
				}
				fn(w, i)
			}
		}(w)
	}
	wg.Wait()
}
