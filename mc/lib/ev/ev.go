// Package ev writes evidence files, reports violations and matches them
// against the committed known-findings file.
package ev

import (
	"bufio"
	"crypto/sha256"
	"encoding/hex"
	"encoding/json"
	"flag"
	"fmt"
	"os"
	"path/filepath"
	"runtime"
	"sort"
	"strconv"
	"strings"
	"sync"
	"time"
)

// VerifRoot is /verif, or the snapshot of it the check was started from (bin/check exports VERIF_ROOT).
var VerifRoot = func() string {
	if r := os.Getenv("VERIF_ROOT"); r != "" {
		return r
	}
	return "/verif"
}()

var (
	FindingsFile = VerifRoot + "/known_findings.txt"
	EvidenceDir  = VerifRoot + "/evidence"
	ReplayDir    = VerifRoot + "/replays"
)

const (
	maxViolations = 20
	maxSamples    = 6
)

// Violation is one property violation found by a check.
type Violation struct {
	// Sig is the canonical signature of the failing artefact. It is what the
	// known-findings file is keyed on, so it must identify the specific
	// input / call site / history class, not the property as a whole.
	Sig    string `json:"sig"`
	Part   string `json:"part"`
	Msg    string `json:"msg"`
	Replay any    `json:"replay"`
}

// Part is the coverage of one sub-result of a check.
type Part struct {
	Name        string `json:"name"`
	Engine      string `json:"engine"`
	States      int64  `json:"states"`
	Transitions int64  `json:"transitions"`
	Executions  int64  `json:"executions"`
	Distinct    int64  `json:"distinct_outcomes"`
	Bound       string `json:"bound_completed"`
	Exhaustive  bool   `json:"exhaustive"`
	Note        string `json:"note,omitempty"`
	Samples     []any  `json:"samples,omitempty"`
}

type Run struct {
	ID    string
	Tier  string
	Seed  int64
	start time.Time

	mu          sync.Mutex
	parts       []*Part
	assumptions []string
	violations  []Violation
	seenSig     map[string]bool
	extra       map[string]any
	deadline    time.Time
}

var (
	flagTier   = flag.String("tier", "", "quick|thorough (default: $VERIF_TIER or quick)")
	flagReplay = flag.String("replay", "", "replay file written for a violation: re-execute that case and print what happens")
)

// ReplayRequested returns the violation stored in the file given with -replay.
func ReplayRequested() (*Violation, bool) {
	if *flagReplay == "" {
		return nil, false
	}
	b, err := os.ReadFile(*flagReplay)
	if err != nil {
		Fatal("replay: %v", err)
	}
	var v Violation
	if err := json.Unmarshal(b, &v); err != nil {
		Fatal("replay: %v", err)
	}
	fmt.Printf("REPLAY %s\n  part: %s\n  signature: %s\n  recorded message: %s\n", *flagReplay, v.Part, v.Sig, v.Msg)
	return &v, true
}

// ReplayField extracts a field of the replay artefact.
func (v *Violation) ReplayField(name string, into any) bool {
	m, ok := v.Replay.(map[string]any)
	if !ok {
		return false
	}
	f, ok := m[name]
	if !ok {
		return false
	}
	b, _ := json.Marshal(f)
	return json.Unmarshal(b, into) == nil
}

// Start begins a run. Call flag.Parse() before.
func Start(id string) *Run {
	tier := *flagTier
	if tier == "" {
		tier = os.Getenv("VERIF_TIER")
	}
	if tier != "thorough" {
		tier = "quick"
	}
	seed, _ := strconv.ParseInt(os.Getenv("VERIF_SEED"), 10, 64)
	r := &Run{ID: id, Tier: tier, Seed: seed, start: time.Now(), seenSig: map[string]bool{}, extra: map[string]any{}}
	return r
}

func (r *Run) Thorough() bool { return r.Tier == "thorough" }

// Pick returns q for the quick tier and t for the thorough tier.
func Pick[T any](r *Run, q, t T) T {
	if r.Thorough() {
		return t
	}
	return q
}

// SetBudget sets an internal wall-clock budget. Checks poll Expired() and stop
// early, reporting exhaustive:false; this never produces a violation.
func (r *Run) SetBudget(d time.Duration) { r.deadline = r.start.Add(d) }
func (r *Run) Expired() bool {
	return !r.deadline.IsZero() && time.Now().After(r.deadline)
}

// SubBudget narrows the deadline to at most d from now (never beyond the run's own
// deadline) and returns a function restoring the previous deadline: a slow part
// degrades to exhaustive=false by itself instead of starving the parts after it.
func (r *Run) SubBudget(d time.Duration) (restore func()) {
	old := r.deadline
	nd := time.Now().Add(d)
	if old.IsZero() || nd.Before(old) {
		r.deadline = nd
	}
	return func() { r.deadline = old }
}

func (r *Run) Remaining() time.Duration {
	if r.deadline.IsZero() {
		return time.Hour * 24
	}
	return time.Until(r.deadline)
}

func (r *Run) Assume(s ...string) {
	r.mu.Lock()
	defer r.mu.Unlock()
	r.assumptions = append(r.assumptions, s...)
}

func (r *Run) Extra(k string, v any) {
	r.mu.Lock()
	defer r.mu.Unlock()
	r.extra[k] = v
}

func (r *Run) AddPart(p *Part) *Part {
	r.mu.Lock()
	defer r.mu.Unlock()
	if len(p.Samples) > maxSamples {
		p.Samples = p.Samples[:maxSamples]
	}
	r.parts = append(r.parts, p)
	return p
}

// Violate records a violation (deduplicated by signature).
func (r *Run) Violate(part, sig, msg string, replay any) {
	sig = strings.ReplaceAll(sig, " ", "-") // signatures are single tokens in the known-findings file
	r.mu.Lock()
	defer r.mu.Unlock()
	if r.seenSig[sig] {
		return
	}
	r.seenSig[sig] = true
	if len(r.violations) < maxViolations*10 {
		r.violations = append(r.violations, Violation{Sig: sig, Part: part, Msg: msg, Replay: replay})
	}
}

func (r *Run) NumViolations() int {
	r.mu.Lock()
	defer r.mu.Unlock()
	return len(r.violations)
}

// Finding is one line of the known-findings file.
type Finding struct {
	Kind     string // "finding" or "fixed"
	Property string
	Sig      string
	Text     string
}

// LoadFindings parses the known-findings file. Format, one per line:
//
//	finding: property=C03 sig=<signature> :: what fails
//	fixed: property=C07 sig=<signature> commit=<hash> :: what failed
//
// Only "finding:" lines suppress anything.
func LoadFindings() []Finding {
	f, err := os.Open(FindingsFile)
	if err != nil {
		return nil
	}
	defer f.Close()
	var out []Finding
	sc := bufio.NewScanner(f)
	for sc.Scan() {
		line := strings.TrimSpace(sc.Text())
		if line == "" || strings.HasPrefix(line, "#") {
			continue
		}
		kind, rest, ok := strings.Cut(line, ":")
		if !ok {
			continue
		}
		kind = strings.TrimSpace(kind)
		if kind != "finding" && kind != "fixed" {
			continue
		}
		head, text, _ := strings.Cut(rest, "::")
		fd := Finding{Kind: kind, Text: strings.TrimSpace(text)}
		for _, tok := range strings.Fields(head) {
			if v, ok := strings.CutPrefix(tok, "property="); ok {
				fd.Property = v
			}
			if v, ok := strings.CutPrefix(tok, "sig="); ok {
				fd.Sig = v
			}
		}
		out = append(out, fd)
	}
	return out
}

// Finish writes the evidence file, prints KNOWN-FINDING / VIOLATION lines and
// exits with the contract's exit code.
func (r *Run) Finish() {
	known := map[string]Finding{}
	for _, f := range LoadFindings() {
		if f.Kind == "finding" && f.Property == r.ID {
			known[f.Sig] = f
		}
	}
	sort.SliceStable(r.violations, func(i, j int) bool { return r.violations[i].Sig < r.violations[j].Sig })
	var unknown []Violation
	var matched []string
	for _, v := range r.violations {
		if f, ok := known[v.Sig]; ok {
			fmt.Printf("KNOWN-FINDING: property=%s sig=%s %s\n", r.ID, v.Sig, f.Text)
			matched = append(matched, v.Sig)
			continue
		}
		unknown = append(unknown, v)
	}

	var states, trans, execs, distinct int64
	exhaustive := true
	var samples []any
	var bounds []string
	for _, p := range r.parts {
		states += p.States
		trans += p.Transitions
		execs += p.Executions
		distinct += p.Distinct
		if !p.Exhaustive {
			exhaustive = false
		}
		for i, s := range p.Samples {
			if i < 3 {
				samples = append(samples, map[string]any{"part": p.Name, "case": s})
			}
		}
		bounds = append(bounds, p.Name+": "+p.Bound)
	}
	if len(samples) == 0 {
		samples = append(samples, "no sample recorded")
	}
	if states < 1 {
		states = 1
	}
	if trans < 1 {
		trans = 1
	}
	cov := map[string]any{
		"states":                        states,
		"transitions":                   trans,
		"traces_validated_against_impl": execs,
		"samples":                       samples,
		"exhaustive":                    exhaustive,
		"bound_completed":               bounds,
		"distinct_outcomes":             distinct,
		"explanation":                   "every execution runs the real implementation (there is no separate model to conform to, so traces_validated_against_impl counts executions); states = distinct canonical states / oracle classes reached, transitions = events applied or steps scheduled; per-part numbers in sub_results",
		"sub_results":                   r.parts,
		"known_findings_matched":        matched,
	}
	for k, v := range r.extra {
		cov[k] = v
	}
	nviol := len(unknown)
	evd := map[string]any{
		"property_id": r.ID,
		"tier":        r.Tier,
		"seed":        r.Seed,
		"level":       "model_checking",
		"coverage":    cov,
		"assumptions": r.assumptions,
		"wall_s":      time.Since(r.start).Seconds(),
		"violations":  nviol,
	}
	_ = os.MkdirAll(EvidenceDir, 0o755)
	b, _ := json.MarshalIndent(evd, "", " ")
	if err := os.WriteFile(filepath.Join(EvidenceDir, r.ID+".json"), b, 0o644); err != nil {
		fmt.Fprintln(os.Stderr, "cannot write evidence:", err)
		os.Exit(2)
	}

	for i, v := range unknown {
		if i >= maxViolations {
			break
		}
		h := sha256.Sum256([]byte(v.Sig))
		dir := filepath.Join(ReplayDir, r.ID)
		_ = os.MkdirAll(dir, 0o755)
		path := filepath.Join(dir, hex.EncodeToString(h[:6])+".json")
		rb, _ := json.MarshalIndent(v, "", " ")
		_ = os.WriteFile(path, rb, 0o644)
		fmt.Printf("VIOLATION property=%s replay=%s\n", r.ID, path)
		fmt.Printf("  part=%s sig=%s\n  %s\n", v.Part, v.Sig, v.Msg)
	}
	fmt.Printf("%s tier=%s states=%d transitions=%d executions=%d distinct=%d exhaustive=%v known=%d violations=%d wall=%.1fs\n",
		r.ID, r.Tier, states, trans, execs, distinct, exhaustive, len(matched), nviol, time.Since(r.start).Seconds())
	for _, p := range r.parts {
		fmt.Printf("  part %-28s engine=%-8s states=%-9d trans=%-10d exec=%-9d distinct=%-7d exhaustive=%-5v bound=%s\n",
			p.Name, p.Engine, p.States, p.Transitions, p.Executions, p.Distinct, p.Exhaustive, p.Bound)
	}
	if nviol > 0 {
		os.Exit(1)
	}
	os.Exit(0)
}

// Fatal is for harness errors (not property violations): exit code 2.
func Fatal(format string, a ...any) {
	fmt.Fprintf(os.Stderr, "HARNESS ERROR: "+format+"\n", a...)
	os.Exit(2)
}

// Guard runs fn and turns a panic of the code under test into a violation.
// It returns false if fn panicked.
func (r *Run) Guard(part, sig string, replay any, fn func()) (ok bool) {
	defer func() {
		if p := recover(); p != nil {
			buf := make([]byte, 4096)
			buf = buf[:runtime.Stack(buf, false)]
			r.Violate(part, sig, fmt.Sprintf("panic: %v\n%s", p, buf), replay)
			ok = false
		}
	}()
	fn()
	return true
}

// RecoverMain is deferred in main(): a panic that escapes everything else is
// reported as a violation (the code under test must not panic) and the run is
// finished with what was covered so far.
func (r *Run) RecoverMain() {
	if p := recover(); p != nil {
		buf := make([]byte, 6000)
		buf = buf[:runtime.Stack(buf, false)]
		r.Violate("main", "panic-escaped", fmt.Sprintf("panic: %v\n%s", p, buf), nil)
		r.AddPart(&Part{Name: "aborted-by-panic", Engine: "-", Exhaustive: false, Bound: "run aborted by a panic"})
		r.Finish()
	}
}

// DropParts removes the parts whose name starts with prefix (used when a
// check aggregates many sub-explorations into one part).
func (r *Run) DropParts(prefix string) {
	r.mu.Lock()
	defer r.mu.Unlock()
	var keep []*Part
	for _, p := range r.parts {
		if !strings.HasPrefix(p.Name, prefix) {
			keep = append(keep, p)
		}
	}
	r.parts = keep
}
