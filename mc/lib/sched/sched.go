// Package sched is the controlled scheduler of engine E3. Managed goroutines
// (everything that executes code of the repository or a harness thread body)
// stop only in places owned by the harness: verifhook yield points, the sleep
// seam, calls into the harness bucket, and thread start. A step releases one
// parked goroutine (or runs one environment action) and then waits for
// quiescence: every managed goroutine is parked, blocked in a real primitive,
// or gone. Quiescence is decided by parsing runtime.Stack wait states, not by
// timeouts, so real mutexes and channels keep their real semantics.
package sched

import (
	"bytes"
	"context"
	"fmt"
	"os"
	"runtime"
	"sort"
	"strconv"
	"strings"
	"sync"
	"sync/atomic"
	"time"

	"github.com/PowerDNS/lightningstream/utils/verifhook"

	"verif/lib/explore"
)

// P is a parked goroutine.
type P struct {
	GoID    uint64
	Thread  string // stable thread name (role)
	Point   string // where it is parked
	Answers []string
	ch      chan int
	seq     int
}

func (p *P) Key() string { return p.Thread + "@" + p.Point }
func (p *P) Seq() int    { return p.seq }

// Action is an environment action offered by the scenario at a step.
type Action struct {
	Label string
	Cost  int
	Do    func()
}

// Choice is one option of a step: release parked goroutine P with answer, or run an action.
type Choice struct {
	Label  string
	Cost   int
	P      *P
	Answer int
	Act    *Action
}

// Policy builds the option list of a step from the parked goroutines. Option 0 is the default.
type Policy func(s *Sched, parked []*P) []Choice

type GInfo struct {
	ID      uint64
	State   string
	Managed bool
	Top     string // first repository / harness frame
	Stack   string
}

type Sched struct {
	Ctx    *explore.Ctx
	Policy Policy
	// ParkPoints: yield points at which goroutines park. Others pass through.
	// nil = park at every point.
	ParkPoints map[string]bool
	// ThreadOf maps (point, name, goid) to a stable thread name for goroutines
	// not spawned through Go(). Default: point prefix before the first dot + ":" + name.
	ThreadOf func(point, name, stack string) string
	// ExpectLMDBBlock: a goroutine sitting in mdb_txn_begin counts as blocked
	// (the harness holds an application write transaction open).
	ExpectLMDBBlock atomic.Bool
	// SleepKey maps a sleep duration to a park point name ("" = do not take over the sleep).
	SleepKey func(d time.Duration) string
	MaxSteps int

	mu       sync.Mutex
	parked   map[uint64]*P
	threads  map[uint64]string // goid -> thread name
	seq      int
	running  string // thread released in the previous step
	draining bool
	self     uint64
	Steps    int
	event    chan struct{}
	exited   map[string]bool
	Log      []string
	lastInfo []GInfo
	sleepErr map[uint64]error
	stale    map[uint64]bool
	primed   bool
}

func New(ctx *explore.Ctx) *Sched {
	s := &Sched{Ctx: ctx, parked: map[uint64]*P{}, threads: map[uint64]string{}, event: make(chan struct{}, 1024), exited: map[string]bool{}, MaxSteps: 2000, sleepErr: map[uint64]error{}}
	s.self = goid()
	// goroutines left over from earlier executions in this process are not part of this one
	s.stale = map[uint64]bool{}
	for _, g := range s.Snapshot() {
		if g.Managed {
			s.stale[g.ID] = true
		}
	}
	return s
}

func goid() uint64 {
	var buf [64]byte
	n := runtime.Stack(buf[:], false)
	// "goroutine 123 ["
	f := bytes.Fields(buf[:n])
	id, _ := strconv.ParseUint(string(f[1]), 10, 64)
	return id
}

// Install installs the scheduler's hooks.
func (s *Sched) Install() {
	verifhook.SetYield(func(point, name string) { s.yield(point, name) })
	verifhook.SetSleep(func(ctx context.Context, d time.Duration) (bool, error) { return s.sleep(ctx, d) })
}

// Uninstall removes the hooks and lets everything run free (drain).
func (s *Sched) Uninstall() {
	verifhook.SetYield(nil)
	verifhook.SetSleep(nil)
}

func (s *Sched) threadName(point, name string, id uint64) string {
	s.mu.Lock()
	defer s.mu.Unlock()
	if t, ok := s.threads[id]; ok {
		return t
	}
	var t string
	if s.ThreadOf != nil {
		s.mu.Unlock()
		var buf [8192]byte
		n := runtime.Stack(buf[:], false)
		t = s.ThreadOf(point, name, string(buf[:n]))
		s.mu.Lock()
	} else {
		t, _, _ = strings.Cut(point, ".")
		if name != "" {
			t += ":" + name
		}
	}
	s.threads[id] = t
	return t
}

// Park parks the calling goroutine at point with the given answers and returns the chosen answer index.
func (s *Sched) Park(point, name string, answers []string) int {
	id := goid()
	if id == s.self || s.stale[id] {
		return 0 // the scheduler's own goroutine (scenario set-up code) and leftovers of earlier executions never park
	}
	t := s.threadName(point, name, id)
	s.mu.Lock()
	if s.draining {
		s.mu.Unlock()
		return 0
	}
	s.seq++
	p := &P{GoID: id, Thread: t, Point: point, Answers: answers, ch: make(chan int, 1), seq: s.seq}
	s.parked[id] = p
	s.mu.Unlock()
	select {
	case s.event <- struct{}{}:
	default:
	}
	return <-p.ch
}

func (s *Sched) yield(point, name string) {
	if s.ThreadOf != nil {
		// name the goroutine at its first yield point, even if it does not park there
		id := goid()
		s.mu.Lock()
		_, known := s.threads[id]
		s.mu.Unlock()
		if !known && id != s.self {
			s.threadName(point, name, id)
		}
	}
	if s.ParkPoints != nil && !s.ParkPoints[point] {
		return
	}
	s.Park(point, name, nil)
}

// ErrSleepCanceled is the answer index convention for sleeps: 0 = timer fires, 1 = context cancelled.
func (s *Sched) sleep(ctx context.Context, d time.Duration) (bool, error) {
	if s.SleepKey == nil {
		return false, nil
	}
	k := s.SleepKey(d)
	if k == "" {
		return false, nil
	}
	s.mu.Lock()
	dr := s.draining
	s.mu.Unlock()
	if dr {
		// drain mode: behave like a sleep that ends when the context ends
		<-ctx.Done()
		return true, context.Canceled
	}
	if ctx.Err() != nil {
		return true, context.Canceled
	}
	a := s.Park("sleep."+k, "", []string{"fire", "cancel"})
	if a == 1 || ctx.Err() != nil {
		return true, context.Canceled
	}
	return true, nil
}

// Go spawns a managed harness thread. It parks before running its body.
func (s *Sched) Go(name string, body func()) {
	go func() {
		id := goid()
		s.mu.Lock()
		s.threads[id] = name
		s.mu.Unlock()
		s.Park("start", "", nil)
		body()
		s.mu.Lock()
		s.exited[name] = true
		s.mu.Unlock()
		select {
		case s.event <- struct{}{}:
		default:
		}
	}()
}

func (s *Sched) Exited(name string) bool {
	s.mu.Lock()
	defer s.mu.Unlock()
	return s.exited[name]
}

// Parked returns the parked goroutines sorted by key.
func (s *Sched) Parked() []*P {
	s.mu.Lock()
	defer s.mu.Unlock()
	var out []*P
	for _, p := range s.parked {
		out = append(out, p)
	}
	sort.Slice(out, func(i, j int) bool {
		if out[i].Key() != out[j].Key() {
			return out[i].Key() < out[j].Key()
		}
		return out[i].seq < out[j].seq
	})
	return out
}

// Release lets a parked goroutine continue with the given answer.
func (s *Sched) Release(p *P, answer int) {
	s.mu.Lock()
	delete(s.parked, p.GoID)
	s.running = p.Thread
	s.mu.Unlock()
	p.ch <- answer
}

// Running returns the thread released in the previous step.
func (s *Sched) Running() string { return s.running }

var blockedStates = []string{"chan receive", "chan send", "select", "sync.Mutex.Lock", "sync.RWMutex.RLock", "sync.RWMutex.Lock", "sync.WaitGroup.Wait", "sync.Cond.Wait"}

func isBlockedState(st string) bool {
	for _, b := range blockedStates {
		if strings.HasPrefix(st, b) {
			return true
		}
	}
	return false
}

var stackBuf = make([]byte, 1<<20)
var debugSched = os.Getenv("VERIF_SCHED_DEBUG") != ""

// Snapshot parses runtime.Stack(all).
func (s *Sched) Snapshot() []GInfo {
	var n int
	for {
		n = runtime.Stack(stackBuf, true)
		if n < len(stackBuf) {
			break
		}
		stackBuf = make([]byte, 2*len(stackBuf))
	}
	var out []GInfo
	for _, blk := range strings.Split(string(stackBuf[:n]), "\n\n") {
		if !strings.HasPrefix(blk, "goroutine ") {
			continue
		}
		nl := strings.IndexByte(blk, '\n')
		if nl < 0 {
			nl = len(blk)
		}
		hdr := blk[:nl]
		// goroutine 12 [chan receive, 2 minutes, locked to thread]:
		sp := strings.IndexByte(hdr[10:], ' ')
		id, _ := strconv.ParseUint(hdr[10:10+sp], 10, 64)
		lb := strings.IndexByte(hdr, '[')
		rb := strings.LastIndexByte(hdr, ']')
		state := hdr[lb+1 : rb]
		if c := strings.IndexByte(state, ','); c >= 0 {
			state = state[:c]
		}
		g := GInfo{ID: id, State: state, Stack: blk}
		if id != s.self {
			body := blk[nl:]
			if !strings.Contains(body, "go-healthz") {
				for _, line := range strings.Split(body, "\n") {
					if strings.HasPrefix(line, "\t") {
						continue
					}
					l := strings.TrimPrefix(line, "created by ")
					if strings.HasPrefix(l, "github.com/PowerDNS/lightningstream/") || strings.HasPrefix(l, "verif/checks") || strings.HasPrefix(l, "main.") || strings.HasPrefix(l, "verif/lib/sched.(*Sched).Go") {
						g.Managed = true
						if g.Top == "" && !strings.HasPrefix(line, "created by ") {
							g.Top = l
						}
					}
				}
			}
		}
		out = append(out, g)
	}
	return out
}

// WaitQuiescent blocks until every managed goroutine is parked, blocked in a real primitive, or gone.
func (s *Sched) WaitQuiescent() []GInfo {
	lmdbWait := map[uint64]int{}
	deadline := time.Now().Add(120 * time.Second)
	for iter := 0; ; iter++ {
		// fast path: give the released goroutine a chance to reach its next park
		if iter == 0 {
			select {
			case <-s.event:
			case <-time.After(50 * time.Microsecond):
			}
		}
		infos := s.Snapshot()
		quiet := true
		for _, g := range infos {
			if g.ID == s.self {
				continue
			}
			if !g.Managed || s.stale[g.ID] {
				// Goroutines outside the managed set (health check evaluators, leftovers of
				// earlier executions) can hold a lock a managed goroutine is waiting for:
				// while one of them is executing, a "blocked" managed goroutine may be about to wake.
				if g.State == "running" || g.State == "runnable" {
					quiet = false
					break
				}
				continue
			}
			if isBlockedState(g.State) {
				continue
			}
			if s.ExpectLMDBBlock.Load() && g.State == "syscall" && strings.Contains(g.Stack, "_Cfunc_mdb_txn_begin") {
				lmdbWait[g.ID]++
				if lmdbWait[g.ID] >= 4 {
					continue
				}
			}
			quiet = false
			break
		}
		if quiet {
			// drain stale events
			for {
				select {
				case <-s.event:
					continue
				default:
				}
				break
			}
			s.lastInfo = infos
			return infos
		}
		if debugSched && iter > 0 && iter%5000 == 0 {
			for _, g := range infos {
				if g.Managed && !s.stale[g.ID] && !isBlockedState(g.State) {
					fmt.Printf("BUSY goroutine %d [%s] top=%s\n%s\n", g.ID, g.State, g.Top, g.Stack)
				}
			}
		}
		if time.Now().After(deadline) {
			var sb strings.Builder
			for _, g := range infos {
				if g.Managed && !isBlockedState(g.State) {
					fmt.Fprintf(&sb, "%s\n\n", g.Stack)
				}
			}
			panic("sched: no quiescence after 120s; busy managed goroutines:\n" + sb.String())
		}
		if iter < 20 {
			runtime.Gosched()
		} else {
			time.Sleep(100 * time.Microsecond)
		}
	}
}

// BlockedManaged returns the managed goroutines that are blocked in a real
// primitive (i.e. not parked by the harness).
func (s *Sched) BlockedManaged() []GInfo {
	s.mu.Lock()
	parked := map[uint64]bool{}
	for id := range s.parked {
		parked[id] = true
	}
	s.mu.Unlock()
	var out []GInfo
	for _, g := range s.lastInfo {
		if g.Managed && !parked[g.ID] && !s.stale[g.ID] {
			out = append(out, g)
		}
	}
	return out
}

// Step performs one scheduling step. It returns false when nothing is enabled.
func (s *Sched) Step() bool {
	if !s.primed {
		s.WaitQuiescent()
		s.primed = true
	}
	choices := s.Policy(s, s.Parked())
	if len(choices) == 0 {
		return false
	}
	opts := make([]explore.Option, len(choices))
	for i, c := range choices {
		opts[i] = explore.Option{Label: c.Label, Cost: c.Cost}
	}
	idx := s.Ctx.Choose(opts)
	c := choices[idx]
	s.Steps++
	if len(s.Log) < 4000 {
		s.Log = append(s.Log, c.Label)
	}
	if c.Act != nil {
		c.Act.Do()
	} else {
		s.Release(c.P, c.Answer)
	}
	// a step ends when the world is quiescent again: observations made after Step are stable
	s.WaitQuiescent()
	return true
}

// Drain switches to drain mode: hooks pass through, parked goroutines are
// released (sleepers with "cancel"). Used after cancellation / at the end.
func (s *Sched) Drain() {
	s.mu.Lock()
	s.draining = true
	ps := make([]*P, 0, len(s.parked))
	for _, p := range s.parked {
		ps = append(ps, p)
	}
	s.parked = map[uint64]*P{}
	s.mu.Unlock()
	for _, p := range ps {
		a := 0
		if len(p.Answers) == 2 && p.Answers[1] == "cancel" {
			a = 1
		}
		p.ch <- a
	}
}

// AllInterleavings is the policy for small protocol scenarios: every parked
// goroutine (with every answer) is an option; continuing the running thread is
// the default and free, switching away from a still-enabled thread costs 1.
func AllInterleavings(s *Sched, parked []*P) []Choice {
	var out []Choice
	var cur []Choice
	runningEnabled := false
	for _, p := range parked {
		if p.Thread == s.running {
			runningEnabled = true
		}
	}
	for _, p := range parked {
		answers := p.Answers
		if len(answers) == 0 {
			answers = []string{""}
		}
		for ai, a := range answers {
			label := p.Key()
			if a != "" {
				label += "=" + a
			}
			cost := 0
			if runningEnabled && p.Thread != s.running {
				cost = 1
			}
			if ai > 0 {
				cost++
			}
			c := Choice{Label: label, Cost: cost, P: p, Answer: ai}
			if p.Thread == s.running && ai == 0 {
				cur = append(cur, c)
			} else {
				out = append(out, c)
			}
		}
	}
	return append(cur, out...)
}

// WaitGone waits until the managed goroutines of this execution have exited or
// are blocked for good (after cancellation and Drain), so that they cannot
// walk into the hooks of the next execution.
func (s *Sched) WaitGone(timeout time.Duration) (left []GInfo) {
	deadline := time.Now().Add(timeout)
	for {
		busy := false
		left = left[:0]
		for _, g := range s.Snapshot() {
			if !g.Managed || s.stale[g.ID] || g.ID == s.self {
				continue
			}
			left = append(left, g)
			if !isBlockedState(g.State) {
				busy = true
			}
		}
		if !busy || time.Now().After(deadline) {
			return left
		}
		time.Sleep(200 * time.Microsecond)
	}
}
