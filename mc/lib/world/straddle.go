package world

import (
	"bytes"
	"runtime"
	"strconv"
	"strings"
	"time"

	"github.com/PowerDNS/lmdb-go/lmdb"
)

func curGoID() string {
	var buf [64]byte
	n := runtime.Stack(buf[:], false)
	return string(bytes.Fields(buf[:n])[1])
}

// Straddle runs `run` on the calling goroutine while an application write
// transaction (op) is open: the application commits only once `run` is blocked
// waiting for the LMDB write lock (or has returned without needing it). This
// realises "an application commit lands while Lightning Stream waits for the
// write lock" without relying on timing luck.
func (e *Env) Straddle(op func(txn *lmdb.Txn), run func()) {
	started := make(chan struct{})
	release := make(chan struct{})
	done := make(chan struct{})
	go func() {
		defer close(done)
		must(e.Update(func(txn *lmdb.Txn) error {
			op(txn)
			close(started)
			<-release
			return nil
		}))
	}()
	<-started
	id := curGoID()
	finished := make(chan struct{})
	go func() {
		defer close(release)
		buf := make([]byte, 1<<20)
		hits := 0
		for {
			select {
			case <-finished:
				return
			default:
			}
			n := runtime.Stack(buf, true)
			for _, blk := range strings.Split(string(buf[:n]), "\n\n") {
				if strings.HasPrefix(blk, "goroutine "+id+" [") {
					if strings.Contains(blk[:strings.IndexByte(blk, '\n')], "syscall") && strings.Contains(blk, "_Cfunc_mdb_txn_begin") {
						hits++
					} else {
						hits = 0
					}
				}
			}
			if hits >= 5 {
				return
			}
			time.Sleep(100 * time.Microsecond)
		}
	}()
	run()
	close(finished)
	<-done
	_ = strconv.Itoa
}
