package world

import (
	"context"
	"os"
	"sort"
	"strings"
	"sync"

	"github.com/PowerDNS/simpleblob"
)

// Call is one storage call seen by the bucket.
type Call struct {
	Op   string // list, load, store, delete
	Name string
	Err  string
}

// Bucket is an in-memory simpleblob backend owned by the harness: atomic put,
// list-after-write, sorted listings (the documented simpleblob contract).
type Bucket struct {
	mu    sync.Mutex
	blobs map[string][]byte
	log   []Call

	// Hook, if set, is called before each operation, without the lock held.
	// It may block (scheduler park). A non-nil error fails the operation
	// without touching the bucket.
	Hook func(op, name string) error
	// IgnoreCancel: behave like the backends that do not look at the context (memory, fs): a call made with a
	// cancelled context still goes through. Default: fail such calls, as the S3 backend does.
	IgnoreCancel bool
	// AfterMutate, if set, is called after each successful Store/Delete.
	AfterMutate func(op, name string)
}

func NewBucket() *Bucket { return &Bucket{blobs: map[string][]byte{}} }

var _ simpleblob.Interface = (*Bucket)(nil)

func (b *Bucket) rec(op, name string, err error) {
	c := Call{Op: op, Name: name}
	if err != nil {
		c.Err = err.Error()
	}
	b.mu.Lock()
	b.log = append(b.log, c)
	b.mu.Unlock()
}

func (b *Bucket) List(ctx context.Context, prefix string) (simpleblob.BlobList, error) {
	if err := ctx.Err(); err != nil && !b.IgnoreCancel {
		return nil, err // like the S3 and fs backends, a cancelled context fails the call
	}
	if b.Hook != nil {
		if err := b.Hook("list", prefix); err != nil {
			b.rec("list", prefix, err)
			return nil, err
		}
	}
	var blobs simpleblob.BlobList
	b.mu.Lock()
	for name, data := range b.blobs {
		if strings.HasPrefix(name, prefix) {
			blobs = append(blobs, simpleblob.Blob{Name: name, Size: int64(len(data))})
		}
	}
	b.mu.Unlock()
	blobs.Sort()
	b.rec("list", prefix, nil)
	return blobs, nil
}

func (b *Bucket) Load(ctx context.Context, name string) ([]byte, error) {
	if err := ctx.Err(); err != nil && !b.IgnoreCancel {
		return nil, err // like the S3 and fs backends, a cancelled context fails the call
	}
	if b.Hook != nil {
		if err := b.Hook("load", name); err != nil {
			b.rec("load", name, err)
			return nil, err
		}
	}
	b.mu.Lock()
	data, ok := b.blobs[name]
	b.mu.Unlock()
	if !ok {
		b.rec("load", name, os.ErrNotExist)
		return nil, os.ErrNotExist
	}
	b.rec("load", name, nil)
	return append([]byte{}, data...), nil
}

func (b *Bucket) Store(ctx context.Context, name string, data []byte) error {
	if err := ctx.Err(); err != nil && !b.IgnoreCancel {
		return err // like the S3 and fs backends, a cancelled context fails the call
	}
	if b.Hook != nil {
		if err := b.Hook("store", name); err != nil {
			b.rec("store", name, err)
			return err
		}
	}
	b.mu.Lock()
	b.blobs[name] = append([]byte{}, data...)
	b.mu.Unlock()
	b.rec("store", name, nil)
	if b.AfterMutate != nil {
		b.AfterMutate("store", name)
	}
	return nil
}

func (b *Bucket) Delete(ctx context.Context, name string) error {
	if err := ctx.Err(); err != nil && !b.IgnoreCancel {
		return err // like the S3 and fs backends, a cancelled context fails the call
	}
	if b.Hook != nil {
		if err := b.Hook("delete", name); err != nil {
			b.rec("delete", name, err)
			return err
		}
	}
	b.mu.Lock()
	delete(b.blobs, name)
	b.mu.Unlock()
	b.rec("delete", name, nil)
	if b.AfterMutate != nil {
		b.AfterMutate("delete", name)
	}
	return nil
}

// --- harness-side accessors (never go through Hook) ---

func (b *Bucket) Put(name string, data []byte) {
	b.mu.Lock()
	b.blobs[name] = append([]byte{}, data...)
	b.mu.Unlock()
}

func (b *Bucket) Remove(name string) {
	b.mu.Lock()
	delete(b.blobs, name)
	b.mu.Unlock()
}

func (b *Bucket) Get(name string) ([]byte, bool) {
	b.mu.Lock()
	defer b.mu.Unlock()
	d, ok := b.blobs[name]
	return d, ok
}

func (b *Bucket) Names() []string {
	b.mu.Lock()
	defer b.mu.Unlock()
	var names []string
	for n := range b.blobs {
		names = append(names, n)
	}
	sort.Strings(names)
	return names
}

func (b *Bucket) Calls() []Call {
	b.mu.Lock()
	defer b.mu.Unlock()
	return append([]Call{}, b.log...)
}

func (b *Bucket) NumCalls() int {
	b.mu.Lock()
	defer b.mu.Unlock()
	return len(b.log)
}
