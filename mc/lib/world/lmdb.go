// Package world is the harness-owned world: scratch LMDB environments, an
// independent raw reader of LMDB contents and of the documented header layout,
// an in-memory bucket with fault injection and a call log, and a logical clock.
package world

import (
	"bytes"
	"encoding/binary"
	"errors"
	"fmt"
	"io"
	"os"
	"path/filepath"
	"sort"
	"strings"
	"sync/atomic"

	"github.com/PowerDNS/lmdb-go/lmdb"
	"github.com/sirupsen/logrus"
)

var scratchRoot string
var envSeq atomic.Int64

func init() {
	// Quiet logging of the code under test: checks judge by observation.
	logrus.SetOutput(io.Discard)
	logrus.SetLevel(logrus.PanicLevel)
}

// ScratchRoot returns (and creates) this process' scratch directory.
func ScratchRoot() string {
	if scratchRoot == "" {
		base := os.Getenv("VERIF_SCRATCH")
		if base == "" {
			base = "/dev/shm"
			if st, err := os.Stat(base); err != nil || !st.IsDir() {
				base = os.TempDir()
			}
		}
		scratchRoot = filepath.Join(base, fmt.Sprintf("verif-%d", os.Getpid()))
		_ = os.MkdirAll(scratchRoot, 0o755)
	}
	return scratchRoot
}

// Cleanup removes the scratch directory.
func Cleanup() {
	if scratchRoot != "" {
		_ = os.RemoveAll(scratchRoot)
	}
}

// Env is a scratch LMDB environment.
type Env struct {
	*lmdb.Env
	Path string
}

// NewEnv creates a fresh scratch environment. mapSize 0 = 16 MB.
func NewEnv(mapSize int64) *Env {
	if mapSize == 0 {
		mapSize = 16 << 20
	}
	p := filepath.Join(ScratchRoot(), fmt.Sprintf("env%d", envSeq.Add(1)))
	if err := os.MkdirAll(p, 0o755); err != nil {
		panic(err)
	}
	env, err := lmdb.NewEnv()
	if err != nil {
		panic(err)
	}
	must(env.SetMapSize(mapSize))
	must(env.SetMaxDBs(32))
	must(env.Open(p, lmdb.NoSync|lmdb.NoMetaSync, 0o644))
	return &Env{Env: env, Path: p}
}

func (e *Env) Destroy() {
	if e == nil || e.Env == nil {
		return
	}
	_ = e.Env.Close()
	e.Env = nil
	_ = os.RemoveAll(e.Path)
}

func must(err error) {
	if err != nil {
		panic(err)
	}
}

// LastTxnID returns the id of the last committed transaction.
func (e *Env) LastTxnID() int64 {
	info, err := e.Info()
	must(err)
	return info.LastTxnID
}

// ---- independent raw dump ----

type RawEntry struct {
	Key []byte
	Val []byte
}

type RawDBI struct {
	Name    string
	Flags   uint
	Entries []RawEntry
}

// RawDump reads all named DBIs (including private ones) with their flags and
// raw values in LMDB order, inside one read transaction.
func (e *Env) RawDump() []RawDBI {
	var out []RawDBI
	must(e.View(func(txn *lmdb.Txn) error {
		out = RawDumpTxn(txn)
		return nil
	}))
	return out
}

func RawDumpTxn(txn *lmdb.Txn) []RawDBI {
	var out []RawDBI
	root, err := txn.OpenRoot(0)
	must(err)
	var names []string
	c, err := txn.OpenCursor(root)
	must(err)
	for flag := uint(lmdb.First); ; flag = lmdb.Next {
		k, _, err := c.Get(nil, nil, flag)
		if lmdb.IsNotFound(err) {
			break
		}
		must(err)
		names = append(names, string(k))
	}
	c.Close()
	for _, name := range names {
		dbi, err := txn.OpenDBI(name, 0)
		must(err)
		fl, err := txn.Flags(dbi)
		must(err)
		d := RawDBI{Name: name, Flags: fl}
		c, err := txn.OpenCursor(dbi)
		must(err)
		for flag := uint(lmdb.First); ; flag = lmdb.Next {
			k, v, err := c.Get(nil, nil, flag)
			if lmdb.IsNotFound(err) {
				break
			}
			must(err)
			d.Entries = append(d.Entries, RawEntry{Key: append([]byte{}, k...), Val: append([]byte{}, v...)})
		}
		c.Close()
		out = append(out, d)
	}
	return out
}

// RawString renders a raw dump canonically (for byte-exact comparisons).
func RawString(d []RawDBI) string {
	var sb strings.Builder
	for _, dbi := range d {
		fmt.Fprintf(&sb, "[%s flags=%#x]\n", dbi.Name, dbi.Flags)
		for _, e := range dbi.Entries {
			fmt.Fprintf(&sb, "  %x = %x\n", e.Key, e.Val)
		}
	}
	return sb.String()
}

// ---- independent reader of the documented header layout (docs/schema-native.md) ----
//
//	8 bytes  timestamp (ns since epoch), big endian
//	8 bytes  LMDB transaction id
//	1 byte   header schema version (0)
//	1 byte   flags (0x01 = deleted)
//	4 bytes  reserved (0)
//	2 bytes  number N of 8-byte extension blocks
//	N*8      extensions
type Hdr struct {
	TS       uint64
	TxnID    uint64
	Version  byte
	Flags    byte
	Reserved [4]byte
	NumExt   int
	Ext      []byte
}

var ErrShort = errors.New("value too short for header")
var ErrVer = errors.New("header version not 0")

// ReadHdr parses a stored value independently of lmdbenv/header.
func ReadHdr(v []byte) (Hdr, []byte, error) {
	var h Hdr
	if len(v) < 24 {
		return h, nil, ErrShort
	}
	h.TS = binary.BigEndian.Uint64(v[0:8])
	h.TxnID = binary.BigEndian.Uint64(v[8:16])
	h.Version = v[16]
	h.Flags = v[17]
	copy(h.Reserved[:], v[18:22])
	h.NumExt = int(v[22])<<8 | int(v[23])
	if h.Version != 0 {
		return h, nil, ErrVer
	}
	end := 24 + 8*h.NumExt
	if len(v) < end {
		return h, nil, ErrShort
	}
	h.Ext = v[24:end]
	return h, v[end:], nil
}

// MakeHdr builds a stored value the way an application following the docs would.
func MakeHdr(ts, txnID uint64, flags byte, numExt int, app []byte) []byte {
	b := make([]byte, 24+8*numExt, 24+8*numExt+len(app))
	binary.BigEndian.PutUint64(b[0:8], ts)
	binary.BigEndian.PutUint64(b[8:16], txnID)
	b[17] = flags
	b[22] = byte(numExt >> 8)
	b[23] = byte(numExt)
	for i := 24; i < len(b); i++ {
		b[i] = 0xEE // extension content is opaque
	}
	return append(b, app...)
}

// ---- logical content ----

// Ver is one version of a key: the logical content the properties talk about.
type Ver struct {
	TS      uint64
	Deleted bool
	Val     string
}

func (v Ver) String() string {
	if v.Deleted {
		return fmt.Sprintf("@%d:DEL", v.TS)
	}
	return fmt.Sprintf("@%d:%q", v.TS, v.Val)
}

// LC is logical content: dbi -> key -> version.
type LC map[string]map[string]Ver

func (lc LC) String() string {
	var dn []string
	for d := range lc {
		dn = append(dn, d)
	}
	sort.Strings(dn)
	var sb strings.Builder
	for _, d := range dn {
		var ks []string
		for k := range lc[d] {
			ks = append(ks, k)
		}
		sort.Strings(ks)
		fmt.Fprintf(&sb, "%s{", d)
		for i, k := range ks {
			if i > 0 {
				sb.WriteString(" ")
			}
			fmt.Fprintf(&sb, "%q%s", k, lc[d][k])
		}
		sb.WriteString("}")
	}
	return sb.String()
}

func (lc LC) Equal(o LC) bool { return lc.String() == o.String() }

// HeaderLC interprets the DBIs selected by pick (name -> logical name, "" to
// skip) as header-carrying DBIs and returns their logical content.
func HeaderLC(d []RawDBI, pick func(name string) string) (LC, error) {
	lc := LC{}
	for _, dbi := range d {
		ln := pick(dbi.Name)
		if ln == "" {
			continue
		}
		m := map[string]Ver{}
		for _, e := range dbi.Entries {
			h, app, err := ReadHdr(e.Val)
			if err != nil {
				return nil, fmt.Errorf("dbi %s key %x: %w", dbi.Name, e.Key, err)
			}
			m[string(e.Key)] = Ver{TS: h.TS, Deleted: h.Flags&1 != 0, Val: string(app)}
		}
		lc[ln] = m
	}
	return lc, nil
}

// PlainContent returns dbi -> key -> value for DBIs without headers.
func PlainContent(d []RawDBI, pick func(name string) string) map[string]map[string]string {
	out := map[string]map[string]string{}
	for _, dbi := range d {
		ln := pick(dbi.Name)
		if ln == "" {
			continue
		}
		m := map[string]string{}
		for _, e := range dbi.Entries {
			m[string(e.Key)] = string(e.Val)
		}
		out[ln] = m
	}
	return out
}

func PlainString(p map[string]map[string]string) string {
	var dn []string
	for d := range p {
		dn = append(dn, d)
	}
	sort.Strings(dn)
	var sb strings.Builder
	for _, d := range dn {
		var ks []string
		for k := range p[d] {
			ks = append(ks, k)
		}
		sort.Strings(ks)
		fmt.Fprintf(&sb, "%s{", d)
		for i, k := range ks {
			if i > 0 {
				sb.WriteString(" ")
			}
			fmt.Fprintf(&sb, "%q=%q", k, p[d][k])
		}
		sb.WriteString("}")
	}
	return sb.String()
}

const ShadowPrefix = "_sync_shadow_"
const PrivatePrefix = "_sync"

// PickNative selects application DBIs (native mode).
func PickNative(name string) string {
	if strings.HasPrefix(name, PrivatePrefix) {
		return ""
	}
	return name
}

// PickShadow selects shadow DBIs and maps them to the application DBI name.
func PickShadow(name string) string {
	if strings.HasPrefix(name, ShadowPrefix) {
		return strings.TrimPrefix(name, ShadowPrefix)
	}
	return ""
}

// Less is the LWW order used by oracles that only need "not older":
// compares timestamps only.
func Older(a, b Ver) bool { return a.TS < b.TS }

// BytesLess helps to sort keys.
func BytesLess(a, b []byte) bool { return bytes.Compare(a, b) < 0 }
