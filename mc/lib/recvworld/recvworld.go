// Package recvworld is the receiver scenario of engine E3: the real
// receiver.Receiver with its Run loop and per-instance downloaders, a consumer
// thread that plays the sync loop (Next / Close), the harness bucket with
// faults, under the controlled scheduler (preemption-bounded interleavings
// plus environment actions).
package recvworld

import (
	"context"
	"errors"
	"fmt"
	"os"
	"sort"
	"strings"
	"sync"
	"time"

	"github.com/PowerDNS/lightningstream/config"
	"github.com/PowerDNS/lightningstream/snapshot"
	"github.com/PowerDNS/lightningstream/syncer/events"
	"github.com/PowerDNS/lightningstream/syncer/hooks"
	"github.com/PowerDNS/lightningstream/syncer/receiver"
	"github.com/PowerDNS/lightningstream/utils/verifhook"
	"github.com/prometheus/client_golang/prometheus"
	"github.com/prometheus/client_golang/prometheus/collectors"
	"github.com/sirupsen/logrus"

	"verif/lib/explore"
	"verif/lib/inst"
	"verif/lib/sched"
	"verif/lib/world"
)

type Cfg struct {
	// Single: instances that start with one (valid) snapshot only. Republish: after its newest snapshot was cleaned,
	// instance c may publish again (an instance that disappears from the bucket and returns).
	// Script: choices that are taken as soon as they are offered, in this order, at no cost: the exploration proper
	// starts from the state they lead to (a non-initial state that would cost several deviations to reach).
	// CleanOlder: a cleaner may remove the superseded (older) snapshot of instance c at any time
	CleanOlder      bool     `json:"clean_older"`
	Single          []string `json:"single"`
	Republish       bool     `json:"republish"`
	Script          []string `json:"script"`
	DownloadLimit   int      `json:"dl"`
	DecompressLimit int      `json:"dc"`
	Instances       []string `json:"instances"` // other instances with snapshots in the bucket at start
	Corrupt         []string `json:"corrupt"`   // placements of undecodable blobs: "b:newest", "b:older", "c:only"
	Faults          bool     `json:"faults"`    // List / Load may fail (each failure is a deviation)
	Publish         bool     `json:"publish"`   // a newer snapshot of instance b may be published during the run
	Vanish          bool     `json:"vanish"`    // the newest snapshot of an instance may be cleaned between listing and download
	Polls           int      `json:"polls"`     // number of storage polls after the first listing
	// LateConsumer: the merge loop is busy elsewhere for the whole explored part (delivered snapshots stay pending in the
	// receiver and can be superseded); it drains in the closing phase. PublishCorrupt: instance b may publish a newer,
	// undecodable blob.
	LateConsumer   bool   `json:"late_consumer"`
	PublishCorrupt bool   `json:"publish_corrupt"`
	DB             string `json:"db"`
	FinePoints     bool   `json:"fine"` // also park before every token acquisition and at the top of every load attempt
	OwnSnapshot    bool   `json:"own"`  // the own instance has a snapshot in the bucket (downloaded once at start-up)
}

type Viol struct{ Sig, Msg string }

type Result struct {
	Outcome   string
	Viols     []Viol
	Delivered []string
	Steps     int
}

var quiet = func() *logrus.Logger { l := logrus.New(); l.SetLevel(logrus.PanicLevel); return l }()

func rawGauge(db, name string) float64 {
	mfs, _ := prometheus.DefaultGatherer.Gather()
	for _, mf := range mfs {
		if mf.GetName() != "lightningstream_climit_active" {
			continue
		}
		for _, m := range mf.GetMetric() {
			var l, n string
			for _, lp := range m.GetLabel() {
				if lp.GetName() == "lmdb" {
					l = lp.GetValue()
				}
				if lp.GetName() == "limit_name" {
					n = lp.GetValue()
				}
			}
			if l == db && n == name {
				return m.GetGauge().GetValue()
			}
		}
	}
	return 0
}

var dbSeq int

func init() {
	// Gathering is done at every quiescent point: drop the expensive runtime/process collectors.
	prometheus.Unregister(collectors.NewGoCollector())
	prometheus.Unregister(collectors.NewProcessCollector(collectors.ProcessCollectorOpts{}))
}

// validBlob builds a decodable snapshot blob.
func validBlob(instance string, n int) []byte {
	msg := &snapshot.Snapshot{FormatVersion: 3, CompatVersion: 1}
	msg.Meta.InstanceID = instance
	d := snapshot.NewDBISize(256)
	d.SetName("d")
	d.Append(snapshot.KV{Key: []byte("k"), Value: []byte(fmt.Sprintf("%s%d", instance, n)), TimestampNano: uint64(100 + n)})
	msg.Databases = append(msg.Databases, d)
	data, _, err := snapshot.DumpData(msg)
	if err != nil {
		panic(err)
	}
	return data
}

var t0 = time.Date(2031, 1, 1, 0, 0, 0, 0, time.UTC)

func Run(cfg Cfg, ctx *explore.Ctx) Result {
	db := "rdb"
	// metric series persist across executions of this process: judge the gauges relative to their value at the start
	baseDL, baseDC := rawGauge(db, "download"), rawGauge(db, "decompress")
	gauge := func(_ string, name string) float64 {
		if name == "download" {
			return rawGauge(db, name) - baseDL
		}
		return rawGauge(db, name) - baseDC
	}
	var viols []Viol
	viol := func(sig, msg string) {
		for _, v := range viols {
			if v.Sig == sig {
				return
			}
		}
		viols = append(viols, Viol{sig, msg})
	}
	b := world.NewBucket()
	decodable := map[string]bool{}
	put := func(instance string, n int, corrupt bool) string {
		name := snapshot.Name(db, instance, "GX", t0.Add(time.Duration(n)*time.Second))
		if corrupt {
			b.Put(name, []byte("this is not a gzip stream"))
		} else {
			b.Put(name, validBlob(instance, n))
			decodable[name] = true
		}
		return name
	}
	isCorrupt := func(instance, where string) bool {
		for _, c := range cfg.Corrupt {
			if c == instance+":"+where {
				return true
			}
		}
		return false
	}
	for _, in := range cfg.Instances {
		only := isCorrupt(in, "only")
		if only {
			put(in, 1, true)
			continue
		}
		single := false
		for _, sname := range cfg.Single {
			single = single || sname == in
		}
		if single {
			put(in, 2, false)
			continue
		}
		put(in, 1, isCorrupt(in, "older"))
		put(in, 2, isCorrupt(in, "newest"))
	}
	if cfg.OwnSnapshot {
		put("self", 1, false) // own snapshot: downloaded once at start-up (includingOwn=true), never afterwards
	}

	verifhook.SetSkip(func(string) bool { return true })
	s := sched.New(ctx)
	s.SleepKey = func(d time.Duration) string {
		switch d {
		case inst.PollStorage:
			return "storagepoll"
		case inst.RetryStorage:
			return "retry"
		}
		return "other"
	}
	s.ThreadOf = func(point, name, stack string) string {
		switch {
		case strings.Contains(stack, "(*Downloader).Run"):
			if strings.HasPrefix(point, "dl.") {
				return "dl:" + name
			}
			if ni, err := snapshot.ParseName(name); err == nil {
				return "dl:" + ni.InstanceID
			}
			return "dl:?"
		case strings.Contains(stack, "(*Receiver).Run("):
			return "receiver"
		}
		t, _, _ := strings.Cut(point, ".")
		return t
	}
	// token acquisition must be a scheduling point: goroutines woken in the same step would otherwise race for a token
	s.ParkPoints = map[string]bool{"dl.publish.lock": true, "dl.closeOverwritten": true, "recv.next.lock": true, "climit.acquire.recv": true, "dl.exit": true}
	if cfg.FinePoints {
		s.ParkPoints["dl.loadonce"] = true
	}
	var mu sync.Mutex
	loadFaults, listFaults := 0, 0
	b.Hook = func(op, name string) error {
		answers := []string{"ok"}
		if cfg.Faults && (op == "load" || op == "list") {
			answers = []string{"ok", "fail"}
		}
		a := s.Park("st."+op, name, answers)
		if a == 1 {
			mu.Lock()
			if op == "load" {
				loadFaults++
			} else {
				listFaults++
			}
			mu.Unlock()
			return errors.New("injected storage failure")
		}
		return nil
	}
	c := config.Config{MemoryDownloadedSnapshots: cfg.DownloadLimit, MemoryDecompressedSnapshots: cfg.DecompressLimit,
		StoragePollInterval: inst.PollStorage, StorageRetryInterval: inst.RetryStorage}
	r := receiver.New(b, c, db, quiet, "self", events.New(), hooks.New())
	rctx, cancel := context.WithCancel(context.Background())

	var delivered []string
	consumerDone := false
	stopConsumer := false
	retried := map[string]bool{} // downloader threads whose retry timer fired since the last storage poll
	produced, polledAt := 0, -1  // snapshots handed to the receiver / value of produced at the consumer's last empty poll
	polls := 0
	published, vanished, republished, olderCleaned := false, false, false, false
	publishedCorrupt := false
	progress := true // something other than the receiver's own poll happened since the last storage poll
	script := append([]string{}, cfg.Script...)
	maxDL, maxDC := 0.0, 0.0

	s.Policy = func(s *sched.Sched, parked []*sched.P) []sched.Choice {
		// safety at every quiescent point
		if g := gauge(db, "download"); g > float64(cfg.DownloadLimit) {
			viol("download-limit-exceeded", fmt.Sprintf("%v compressed snapshots in memory, limit %d", g, cfg.DownloadLimit))
		} else if g > maxDL {
			maxDL = g
		}
		if g := gauge(db, "decompress"); g > float64(cfg.DecompressLimit) {
			viol("decompress-limit-exceeded", fmt.Sprintf("%v decompressed snapshots in memory, limit %d", g, cfg.DecompressLimit))
		} else if g > maxDC {
			maxDC = g
		}
		var pool []*sched.P
		for _, p := range parked {
			if p.Point == "sleep.storagepoll" && (polls >= cfg.Polls || len(script) > 0) {
				continue // poll quota used up (or the scripted prefix is not done yet): the receiver stays asleep
			}
			if p.Point == "sleep.storagepoll" && cfg.Republish && polls > 0 && !progress {
				// a second poll right after a poll, with the same bucket and nothing else having run in between, sees
				// exactly what the first one saw: same future, not worth a poll of the quota
				continue
			}
			if p.Point == "sleep.retry" && retried[p.Thread] {
				continue // timers are fair: a storage poll (1 s) fires before the same retry timer (5 s) fires again
			}
			if p.Point == "consumer.stalled" {
				continue // the merge loop is busy elsewhere until the closing phase
			}
			if p.Point == "consumer.idle" && polledAt == produced {
				continue // nothing new since the consumer's last empty poll
			}
			pool = append(pool, p)
		}
		out := sched.AllInterleavings(s, pool)
		for i := range out {
			if out[i].P != nil && out[i].P.Point == "sleep.storagepoll" {
				out[i].Label = "storage-poll-fires"
			}
			// failing answers: each one is a deviation, capped
			if out[i].Answer == 1 && out[i].P != nil && strings.HasPrefix(out[i].P.Point, "sleep.") {
				out[i].Cost = 1000 // never cancel sleeps during exploration
			}
		}
		// drop prohibitively expensive options
		var kept []sched.Choice
		for _, c := range out {
			if c.Cost < 1000 {
				kept = append(kept, c)
			}
		}
		out = kept
		if len(out) > 0 {
			if cfg.Republish && (vanished || isCorrupt("c", "only")) && !republished {
				out = append(out, sched.Choice{Label: "c-publishes-again", Cost: 1, Act: &sched.Action{Do: func() {
					republished = true
					put("c", 4, false)
				}}})
			}
			if cfg.PublishCorrupt && !publishedCorrupt {
				out = append(out, sched.Choice{Label: "publish-corrupt-newer-b", Cost: 1, Act: &sched.Action{Do: func() {
					publishedCorrupt = true
					put("b", 5, true) // later than anything else b publishes
				}}})
			}
			if cfg.Publish && !published && !cfg.CleanOlder {
				out = append(out, sched.Choice{Label: "publish-newer-b", Cost: 1, Act: &sched.Action{Do: func() {
					published = true
					put("b", 3, false)
				}}})
			}
			if cfg.CleanOlder && !olderCleaned {
				// (with Publish: instance b publishes in the same interval between two polls - one event, so that the
				// pair costs one deviation)
				out = append(out, sched.Choice{Label: "older-of-c-cleaned", Cost: 1, Act: &sched.Action{Do: func() {
					olderCleaned = true
					if cfg.Publish && !published {
						published = true
						put("b", 3, false)
					}
					var cs []string
					for _, n := range b.Names() {
						if strings.HasPrefix(n, db+"__c__") {
							cs = append(cs, n)
						}
					}
					if len(cs) >= 2 {
						b.Remove(cs[0])
						delete(decodable, cs[0])
					}
				}}})
			}
			if cfg.Vanish && !vanished {
				out = append(out, sched.Choice{Label: "newest-of-c-cleaned", Cost: 1, Act: &sched.Action{Do: func() {
					vanished = true
					newest := ""
					for _, n := range b.Names() {
						if strings.HasPrefix(n, db+"__c__") {
							newest = n
						}
					}
					if newest != "" {
						b.Remove(newest)
						delete(decodable, newest)
					}
				}}})
			}
		}
		if len(script) > 0 {
			// scripted prefix: take the scripted choice as soon as it is offered; until then only the default
			for _, c := range out {
				if c.Label == script[0] {
					script = script[1:]
					c.Cost = 0
					return []sched.Choice{c}
				}
			}
			if len(out) > 1 {
				out = out[:1]
			}
		}
		return out
	}
	s.Install()
	s.Go("receiver-main", func() {
		// initial listing (including own) as the sync loop does, then the background loop
		for {
			if err := r.RunOnce(rctx, true); err == nil {
				break
			}
		}
		_ = r.Run(rctx)
	})
	s.Go("consumer", func() {
		if cfg.LateConsumer {
			s.Park("consumer.stalled", "", nil)
		}
		for !stopConsumer {
			instance, u := r.Next()
			if instance == "" {
				mu.Lock()
				polledAt = produced
				mu.Unlock()
				s.Park("consumer.idle", "", nil)
				continue
			}
			mu.Lock()
			delivered = append(delivered, u.NameInfo.FullName)
			mu.Unlock()
			if u.Snapshot == nil {
				viol("delivered-update-without-snapshot", u.NameInfo.FullName)
			}
			u.Close()
		}
		consumerDone = true
	})
	outcome := "end"
	for s.Steps < 600 {
		// wrap: track poll firing through the log
		before := len(s.Log)
		if !s.Step() {
			break
		}
		if len(s.Log) > before {
			last := s.Log[len(s.Log)-1]
			if last == "storage-poll-fires" {
				polls++
				retried = map[string]bool{}
				progress = false
			} else if !strings.HasPrefix(last, "receiver-main@") {
				progress = true // another goroutine ran, or the bucket changed
			}
			if strings.Contains(last, "@sleep.retry") {
				retried[strings.SplitN(last, "@", 2)[0]] = true
			}
			if strings.HasSuffix(last, "@dl.publish.lock") {
				mu.Lock()
				produced++
				mu.Unlock()
			}
		}
		if consumerDone {
			break
		}
	}
	if s.Steps >= 600 {
		outcome = "horizon"
		viol("receiver-scenario-does-not-settle", "600 steps without settling")
	}
	_ = outcome

	// closing phase: no more faults, no more deviations. In-progress work runs to completion, retry timers
	// fire, the consumer drains; then two more storage polls, each followed by the same.
	closing := func() {
		pollsLeft := 2
		consumerPolled := false
		for guard := 0; guard < 600; guard++ {
			parked := s.Parked()
			if len(parked) == 0 {
				return
			}
			var work, cwork, retry, consumer, poll *sched.P
			for _, p := range parked {
				switch {
				case p.Point == "consumer.idle":
					consumer = p
				case p.Point == "sleep.retry":
					if retry == nil && !retried[p.Thread] {
						retry = p
					}
				case p.Point == "sleep.storagepoll":
					poll = p
				case strings.HasPrefix(p.Point, "sleep."):
				default:
					if p.Thread == "consumer" {
						cwork = p
					} else if work == nil {
						work = p
					}
				}
			}
			var pick *sched.P
			switch {
			case cwork != nil:
				pick = cwork // the consumer finishes its current Next()/Close()
			case work != nil:
				pick = work
				consumerPolled = false
			case retry != nil:
				pick = retry
				retried[retry.Thread] = true
				consumerPolled = false
			case consumer != nil && !consumerPolled:
				pick = consumer
				consumerPolled = true
				polledAt = -1
			case poll != nil && pollsLeft > 0:
				pick = poll
				pollsLeft--
				retried = map[string]bool{}
				consumerPolled = false
			default:
				return
			}
			s.Ctx.Choose([]explore.Option{{Label: "closing:" + pick.Key()}})
			s.Release(pick, 0)
			s.WaitQuiescent()
		}
		viol("closing-phase-does-not-settle", "600 closing steps")
	}
	closing()
	// final: everything delivered has been closed by the consumer; superseded ones must have been released by the downloader
	mu.Lock()
	del := append([]string{}, delivered...)
	mu.Unlock()
	// liveness
	newest := map[string]string{}
	for _, n := range b.Names() {
		ni, err := snapshot.ParseName(n)
		if err != nil || ni.InstanceID == "self" || !decodable[n] {
			continue
		}
		newest[ni.InstanceID] = n
	}
	for in, n := range newest {
		found := false
		for _, d := range del {
			if d == n {
				found = true
			}
		}
		if !found {
			var stuck []string
			for _, g := range s.BlockedManaged() {
				stuck = append(stuck, g.Top+"@"+g.State)
			}
			sort.Strings(stuck)
			viol("newest-decodable-snapshot-not-delivered", fmt.Sprintf("instance %s: newest decodable snapshot %s was never returned by Next(); delivered %v; load faults %d list faults %d; blocked goroutines %v", in, n, del, loadFaults, listFaults, stuck))
		}
	}
	for _, d := range del {
		if !decodable[d] && !vanishedName(d, b) {
			viol("undecodable-blob-delivered", d)
		}
	}
	if g := gauge(db, "decompress"); g != 0 {
		viol("decompressed-snapshot-token-leaked", fmt.Sprintf("world idle, consumer closed everything it received, but %v decompressed-snapshot tokens are still held (delivered %v)", g, del))
	}
	if g := gauge(db, "download"); g != 0 {
		viol("download-token-leaked", fmt.Sprintf("world idle but %v download tokens are still held", g))
	}
	// corrupt blobs are loaded at most once
	loads := map[string]int{}
	for _, c := range b.Calls() {
		if c.Op == "load" && c.Err == "" {
			loads[c.Name]++
		}
	}
	for n, k := range loads {
		if _, ok := b.Get(n); ok && !decodable[n] && k > 1 {
			viol("corrupt-blob-loaded-again", fmt.Sprintf("%s loaded %d times", n, k))
		}
	}
	stopConsumer = true
	cancel()
	s.Uninstall()
	s.Drain()
	s.WaitGone(5 * time.Second)
	if os.Getenv("VERIF_SCHED_DEBUG") != "" {
		fmt.Println("delivered:", del, "maxDL", maxDL, "maxDC", maxDC)
	}
	return Result{Outcome: fmt.Sprintf("delivered=%d/maxdl=%v/maxdc=%v", len(del), maxDL, maxDC), Viols: viols, Delivered: del, Steps: s.Steps}
}

func vanishedName(n string, b *world.Bucket) bool {
	_, ok := b.Get(n)
	return !ok
}
