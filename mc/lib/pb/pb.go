// Package pb is a tiny protobuf message tree used to produce every re-encoding
// of a snapshot message that a conforming encoder may emit (field order,
// explicit defaults, unknown fields) and adversarial variants of it, plus
// decoders of the content through the code under test and through the
// generated reference codec.
package pb

import (
	"crypto/sha256"
	"encoding/binary"
	"fmt"
	"io"
	"strings"

	"github.com/PowerDNS/lightningstream/snapshot"
	"github.com/PowerDNS/lightningstream/snapshot/gogosnapshot"
)

const (
	WTVarint  = 0
	WTFixed64 = 1
	WTBytes   = 2
	WTFixed32 = 5
)

// F is one field occurrence.
type F struct {
	Num int
	WT  int
	V   uint64 // varint / fixed value
	B   []byte // bytes payload (if M == nil)
	M   *Msg   // sub-message payload

	TagOv *uint64 // adversarial: write this value instead of the tag varint
	LenOv *uint64 // adversarial: write this value instead of the length varint
}

type Msg struct{ F []F }

// Mark records where a varint (tag or length) sits in the encoded bytes.
type Mark struct {
	Off, Len int
	Kind     string // "tag" or "len"
	Depth    int
	Path     string
	Val      uint64
	Remain   int // for "len": bytes remaining in the enclosing message after this varint
}

func AppendVarint(b []byte, v uint64) []byte {
	for v >= 0x80 {
		b = append(b, byte(v)|0x80)
		v >>= 7
	}
	return append(b, byte(v))
}

func (m *Msg) Enc() []byte {
	b, _ := m.enc(nil, nil, 0, "")
	return b
}

// EncMarks encodes and returns the positions of all tag and length varints.
func (m *Msg) EncMarks() ([]byte, []Mark) {
	var marks []Mark
	b, _ := m.enc(nil, &marks, 0, "")
	return b, marks
}

func (m *Msg) enc(b []byte, marks *[]Mark, depth int, path string) ([]byte, int) {
	start := len(b)
	for i, f := range m.F {
		p := fmt.Sprintf("%s/%d#%d", path, f.Num, i)
		off := len(b)
		if f.TagOv != nil {
			b = AppendVarint(b, *f.TagOv)
		} else {
			b = AppendVarint(b, uint64(f.Num)<<3|uint64(f.WT))
		}
		if marks != nil {
			*marks = append(*marks, Mark{Off: off, Len: len(b) - off, Kind: "tag", Depth: depth, Path: p, Val: uint64(f.Num)<<3 | uint64(f.WT)})
		}
		switch f.WT {
		case WTVarint:
			b = AppendVarint(b, f.V)
		case WTFixed64:
			b = binary.LittleEndian.AppendUint64(b, f.V)
		case WTFixed32:
			b = binary.LittleEndian.AppendUint32(b, uint32(f.V))
		case WTBytes:
			payload := f.B
			var subMarks []Mark
			if f.M != nil {
				payload, _ = f.M.enc(nil, &subMarks, depth+1, p)
			}
			off := len(b)
			if f.LenOv != nil {
				b = AppendVarint(b, *f.LenOv)
			} else {
				b = AppendVarint(b, uint64(len(payload)))
			}
			if marks != nil {
				*marks = append(*marks, Mark{Off: off, Len: len(b) - off, Kind: "len", Depth: depth, Path: p, Val: uint64(len(payload))})
				base := len(b)
				for _, sm := range subMarks {
					sm.Off += base
					*marks = append(*marks, sm)
				}
			}
			b = append(b, payload...)
		default:
			panic("wire type")
		}
	}
	return b, len(b) - start
}

// Clone makes a deep copy.
func (m *Msg) Clone() *Msg {
	c := &Msg{F: make([]F, len(m.F))}
	for i, f := range m.F {
		c.F[i] = f
		if f.M != nil {
			c.F[i].M = f.M.Clone()
		}
	}
	return c
}

// Walk calls fn for every (sub-)message with its path.
func (m *Msg) Walk(path string, fn func(path string, m *Msg)) {
	fn(path, m)
	for i, f := range m.F {
		if f.M != nil {
			f.M.Walk(fmt.Sprintf("%s/%d#%d", path, f.Num, i), fn)
		}
	}
}

// ---- content ----

type KV struct {
	Key, Val []byte
	TS       uint64
	Flags    uint32
}
type DBI struct {
	Name      string
	Flags     uint64
	Transform string
	Entries   []KV
}
type Meta struct {
	GenerationID, InstanceID, Hostname, DatabaseName string
	LmdbTxnID, FromLmdbTxnID                         int64
	TimestampNano                                    uint64
}
type Snap struct {
	FV, CV uint32
	Meta   Meta
	DBIs   []DBI
}

func short(b []byte) string {
	if len(b) <= 24 {
		return fmt.Sprintf("%x", b)
	}
	h := sha256.Sum256(b)
	return fmt.Sprintf("len%d:%x", len(b), h[:6])
}

// String is the canonical rendering used for comparisons.
func (s Snap) String() string {
	var sb strings.Builder
	fmt.Fprintf(&sb, "fv=%d cv=%d meta{%q %q %q %q %d %d %d}", s.FV, s.CV, s.Meta.GenerationID, s.Meta.InstanceID, s.Meta.Hostname, s.Meta.DatabaseName, s.Meta.LmdbTxnID, s.Meta.FromLmdbTxnID, s.Meta.TimestampNano)
	for _, d := range s.DBIs {
		fmt.Fprintf(&sb, " dbi{%s f=%d t=%q", short([]byte(d.Name)), d.Flags, d.Transform)
		for _, e := range d.Entries {
			fmt.Fprintf(&sb, " [%s=%s @%d f%d]", short(e.Key), short(e.Val), e.TS, e.Flags)
		}
		sb.WriteString("}")
	}
	return sb.String()
}

// ToMsg builds the canonical message tree (proto3: defaults omitted).
func (s Snap) ToMsg() *Msg {
	m := &Msg{}
	if s.FV != 0 {
		m.F = append(m.F, F{Num: 1, WT: WTVarint, V: uint64(s.FV)})
	}
	if s.CV != 0 {
		m.F = append(m.F, F{Num: 4, WT: WTVarint, V: uint64(s.CV)})
	}
	mm := s.Meta.ToMsg()
	if len(mm.F) > 0 {
		m.F = append(m.F, F{Num: 2, WT: WTBytes, M: mm})
	}
	for _, d := range s.DBIs {
		m.F = append(m.F, F{Num: 3, WT: WTBytes, M: d.ToMsg()})
	}
	return m
}

func (mt Meta) ToMsg() *Msg {
	m := &Msg{}
	str := func(n int, v string) {
		if v != "" {
			m.F = append(m.F, F{Num: n, WT: WTBytes, B: []byte(v)})
		}
	}
	str(1, mt.GenerationID)
	str(2, mt.InstanceID)
	str(3, mt.Hostname)
	str(7, mt.DatabaseName)
	if mt.LmdbTxnID != 0 {
		m.F = append(m.F, F{Num: 4, WT: WTVarint, V: uint64(mt.LmdbTxnID)})
	}
	if mt.TimestampNano != 0 {
		m.F = append(m.F, F{Num: 5, WT: WTFixed64, V: mt.TimestampNano})
	}
	if mt.FromLmdbTxnID != 0 {
		m.F = append(m.F, F{Num: 8, WT: WTVarint, V: uint64(mt.FromLmdbTxnID)})
	}
	return m
}

func (d DBI) ToMsg() *Msg {
	m := &Msg{}
	if d.Name != "" {
		m.F = append(m.F, F{Num: 1, WT: WTBytes, B: []byte(d.Name)})
	}
	if d.Flags != 0 {
		m.F = append(m.F, F{Num: 3, WT: WTVarint, V: d.Flags})
	}
	if d.Transform != "" {
		m.F = append(m.F, F{Num: 4, WT: WTBytes, B: []byte(d.Transform)})
	}
	for _, e := range d.Entries {
		m.F = append(m.F, F{Num: 2, WT: WTBytes, M: e.ToMsg()})
	}
	return m
}

func (e KV) ToMsg() *Msg {
	m := &Msg{}
	if len(e.Key) > 0 {
		m.F = append(m.F, F{Num: 1, WT: WTBytes, B: e.Key})
	}
	if len(e.Val) > 0 {
		m.F = append(m.F, F{Num: 2, WT: WTBytes, B: e.Val})
	}
	if e.Flags != 0 {
		m.F = append(m.F, F{Num: 4, WT: WTVarint, V: uint64(e.Flags)})
	}
	if e.TS != 0 {
		m.F = append(m.F, F{Num: 3, WT: WTFixed64, V: e.TS})
	}
	return m
}

// ToOurs builds the snapshot through the code under test's own API.
// sizeHint < 0 uses NewDBI(), otherwise NewDBISize(sizeHint).
func (s Snap) ToOurs(sizeHint int) *snapshot.Snapshot {
	out := &snapshot.Snapshot{FormatVersion: s.FV, CompatVersion: s.CV}
	out.Meta = snapshot.Meta{GenerationID: s.Meta.GenerationID, InstanceID: s.Meta.InstanceID, Hostname: s.Meta.Hostname,
		LmdbTxnID: s.Meta.LmdbTxnID, TimestampNano: s.Meta.TimestampNano, DatabaseName: s.Meta.DatabaseName, FromLmdbTxnID: s.Meta.FromLmdbTxnID}
	for _, d := range s.DBIs {
		var dd *snapshot.DBI
		if sizeHint < 0 {
			dd = snapshot.NewDBI()
		} else {
			dd = snapshot.NewDBISize(sizeHint)
		}
		dd.SetName(d.Name)
		dd.SetFlags(d.Flags)
		dd.SetTransform(d.Transform)
		for _, e := range d.Entries {
			dd.Append(snapshot.KV{Key: e.Key, Value: e.Val, TimestampNano: e.TS, Flags: e.Flags})
		}
		out.Databases = append(out.Databases, dd)
	}
	return out
}

func (s Snap) ToRef() *gogosnapshot.Snapshot {
	out := &gogosnapshot.Snapshot{FormatVersion: s.FV, CompatVersion: s.CV}
	out.Meta = gogosnapshot.Snapshot_Meta{GenerationID: s.Meta.GenerationID, InstanceID: s.Meta.InstanceID, Hostname: s.Meta.Hostname,
		LmdbTxnID: s.Meta.LmdbTxnID, TimestampNano: s.Meta.TimestampNano, DatabaseName: s.Meta.DatabaseName, FromLmdbTxnID: s.Meta.FromLmdbTxnID}
	for _, d := range s.DBIs {
		dd := &gogosnapshot.DBI{Name: d.Name, Flags: d.Flags, Transform: d.Transform}
		for _, e := range d.Entries {
			dd.Entries = append(dd.Entries, gogosnapshot.KV{Key: e.Key, Value: e.Val, TimestampNano: e.TS, Flags: e.Flags})
		}
		out.Databases = append(out.Databases, dd)
	}
	return out
}

// FromOurs extracts the content of a decoded snapshot by iterating all entries.
func FromOurs(s *snapshot.Snapshot) (Snap, error) {
	out := Snap{FV: s.FormatVersion, CV: s.CompatVersion}
	out.Meta = Meta{GenerationID: s.Meta.GenerationID, InstanceID: s.Meta.InstanceID, Hostname: s.Meta.Hostname,
		LmdbTxnID: s.Meta.LmdbTxnID, TimestampNano: s.Meta.TimestampNano, DatabaseName: s.Meta.DatabaseName, FromLmdbTxnID: s.Meta.FromLmdbTxnID}
	for _, d := range s.Databases {
		dd := DBI{Name: d.Name(), Flags: d.Flags(), Transform: d.Transform()}
		d.ResetCursor()
		for {
			kv, err := d.Next()
			if err == io.EOF {
				break
			}
			if err != nil {
				return out, err
			}
			dd.Entries = append(dd.Entries, KV{Key: kv.Key, Val: kv.Value, TS: kv.TimestampNano, Flags: kv.Flags})
		}
		out.DBIs = append(out.DBIs, dd)
	}
	return out, nil
}

// DecodeOurs decodes raw protobuf bytes with the code under test.
func DecodeOurs(data []byte) (Snap, error) {
	var s snapshot.Snapshot
	if err := s.Unmarshal(data); err != nil {
		return Snap{}, err
	}
	return FromOurs(&s)
}

// DecodeRef decodes raw protobuf bytes with the generated reference codec.
func DecodeRef(data []byte) (Snap, error) {
	var s gogosnapshot.Snapshot
	if err := s.Unmarshal(data); err != nil {
		return Snap{}, err
	}
	out := Snap{FV: s.FormatVersion, CV: s.CompatVersion}
	out.Meta = Meta{GenerationID: s.Meta.GenerationID, InstanceID: s.Meta.InstanceID, Hostname: s.Meta.Hostname,
		LmdbTxnID: s.Meta.LmdbTxnID, TimestampNano: s.Meta.TimestampNano, DatabaseName: s.Meta.DatabaseName, FromLmdbTxnID: s.Meta.FromLmdbTxnID}
	for _, d := range s.Databases {
		dd := DBI{Name: d.Name, Flags: d.Flags, Transform: d.Transform}
		for _, e := range d.Entries {
			dd.Entries = append(dd.Entries, KV{Key: e.Key, Val: e.Value, TS: e.TimestampNano, Flags: e.Flags})
		}
		out.DBIs = append(out.DBIs, dd)
	}
	return out, nil
}
