// Package statemc is engine E2: explicit-state breadth-first search. A state is
// the event history that reaches it; successors are computed by worker
// subprocesses that replay the history on a fresh world and apply one more
// event (live objects cannot be cloned). States are deduplicated by a
// canonical key computed by the worker.
package statemc

import (
	"encoding/json"
	"fmt"
	"strings"
	"time"

	"verif/lib/ev"
	"verif/lib/par"
)

// Succ is one successor of a state.
type Succ struct {
	Ev    string   `json:"e"`
	Key   string   `json:"k"`           // canonical state key (hash)
	Term  string   `json:"t,omitempty"` // canonical terminal content after closure (for distinct outcomes)
	Viols []Viol   `json:"v,omitempty"`
	Stop  bool     `json:"s,omitempty"` // do not expand further (e.g. implementation error)
	Info  []string `json:"i,omitempty"`
}

type Viol struct {
	Sig string `json:"sig"`
	Msg string `json:"msg"`
}

type Task struct {
	Hist  []string        `json:"h"`
	Param json.RawMessage `json:"p"`
}

type Result struct {
	Succs []Succ `json:"s"`
	Err   string `json:"err,omitempty"`
}

type Stats struct {
	States      int64
	Transitions int64
	Depth       int
	Exhaustive  bool
	Terminals   int
	Samples     []any
	PerDepth    []int
}

// Expander is implemented by the check: it expands one history.
type Expander func(hist []string, param json.RawMessage) Result

// Handler wraps an Expander as a par worker handler.
func Handler(x Expander) par.Handler {
	return func(b []byte) []byte {
		var t Task
		if err := json.Unmarshal(b, &t); err != nil {
			out, _ := json.Marshal(Result{Err: err.Error()})
			return out
		}
		res := x(t.Hist, t.Param)
		out, _ := json.Marshal(res)
		return out
	}
}

// Run performs the BFS up to maxDepth events.
func Run(r *ev.Run, partName string, kind string, param any, maxDepth int, maxStates int) Stats {
	pj, _ := json.Marshal(param)
	pool := &par.Pool{Timeout: 10 * time.Minute}
	seen := map[string]bool{}
	terms := map[string]bool{}
	st := Stats{Exhaustive: true}
	frontier := [][]string{{}}
	seen["<init>"] = true
	st.States = 1
	var deepest []string
	for depth := 0; depth < maxDepth && len(frontier) > 0; depth++ {
		if r.Expired() || (maxStates > 0 && st.States >= int64(maxStates)) {
			st.Exhaustive = false
			break
		}
		tasks := make([][]byte, len(frontier))
		for i, h := range frontier {
			tasks[i], _ = json.Marshal(Task{Hist: h, Param: pj})
		}
		var next [][]string
		stopped := false
		pool.Map(kind, tasks, func(res par.Result) {
			h := frontier[res.Index]
			if res.Err != nil {
				r.Violate(partName, "worker-crash", fmt.Sprintf("worker died expanding history [%s]: %v\n%s", strings.Join(h, " "), res.Err, par.TrimStderr(res.Stderr)),
					map[string]any{"history": h, "stderr": par.TrimStderr(res.Stderr)})
				return
			}
			var tr Result
			if err := json.Unmarshal(res.Out, &tr); err != nil {
				ev.Fatal("bad worker result: %v", err)
			}
			if tr.Err != "" {
				ev.Fatal("worker harness error on history %v: %s", h, tr.Err)
			}
			for _, s := range tr.Succs {
				st.Transitions++
				nh := append(append([]string{}, h...), s.Ev)
				for _, v := range s.Viols {
					r.Violate(partName, v.Sig, fmt.Sprintf("history [%s]: %s", strings.Join(nh, " "), v.Msg), map[string]any{"history": nh, "param": param})
				}
				if s.Term != "" {
					terms[s.Term] = true
				}
				if seen[s.Key] {
					continue
				}
				seen[s.Key] = true
				st.States++
				if len(nh) > len(deepest) {
					deepest = nh
				}
				if len(st.Samples) < 2 && len(nh) >= 2 {
					st.Samples = append(st.Samples, strings.Join(nh, " "))
				}
				if !s.Stop {
					next = append(next, nh)
				}
			}
		}, func() bool {
			if r.Expired() {
				stopped = true
				return true
			}
			return false
		})
		if stopped {
			st.Exhaustive = false
			st.PerDepth = append(st.PerDepth, len(next))
			break
		}
		st.Depth = depth + 1
		st.PerDepth = append(st.PerDepth, len(next))
		frontier = next
	}
	if deepest != nil {
		st.Samples = append(st.Samples, "deepest: "+strings.Join(deepest, " "))
	}
	st.Terminals = len(terms)
	return st
}

// Replay re-executes a recorded violation of an E2 check: the history is expanded again, event by event.
func Replay(v *ev.Violation, x Expander) {
	var hist []string
	var param json.RawMessage
	if !v.ReplayField("history", &hist) {
		fmt.Println("  (no recorded history in this replay file)")
		return
	}
	v.ReplayField("param", &param)
	for i := 0; i < len(hist); i++ {
		res := x(hist[:i], param)
		if res.Err != "" {
			fmt.Printf("  step %d: harness error %s\n", i, res.Err)
			return
		}
		for _, s := range res.Succs {
			if s.Ev == hist[i] {
				fmt.Printf("  step %d %-14s -> state %s, %d violation(s)\n", i+1, s.Ev, s.Key, len(s.Viols))
				for _, vv := range s.Viols {
					fmt.Printf("      %s: %s\n", vv.Sig, vv.Msg)
				}
			}
		}
	}
}
