// Package xrun distributes a deviation-bounded DFS (package explore) over the
// worker pool: a task explores a bounded number of executions below its nodes
// and hands back the nodes it did not reach.
package xrun

import (
	"encoding/json"
	"fmt"
	"os"
	"sort"
	"strings"
	"time"

	"verif/lib/ev"
	"verif/lib/explore"
	"verif/lib/par"
)

type Viol struct {
	Sig   string   `json:"sig"`
	Msg   string   `json:"msg"`
	Trace []string `json:"trace"`
}

type Task struct {
	Param  json.RawMessage `json:"p"`
	Nodes  []explore.Node  `json:"n"`
	Bound  int             `json:"b"`
	Budget int64           `json:"g"`
}

type TaskResult struct {
	Stats   explore.Stats  `json:"st"`
	Kids    []explore.Node `json:"k"`
	Viols   []Viol         `json:"v"`
	Samples []string       `json:"sm"`
}

// RunFn runs one execution and appends violations.
type RunFn func(param json.RawMessage, ctx *explore.Ctx, viols *[]Viol) (outcome string)

func Handler(run RunFn) par.Handler {
	return func(b []byte) []byte {
		var t Task
		_ = json.Unmarshal(b, &t)
		var res TaskResult
		res.Kids = explore.Budgeted(t.Nodes, t.Bound, t.Budget, func(ctx *explore.Ctx) string {
			n := len(res.Viols)
			out := run(t.Param, ctx, &res.Viols)
			for i := n; i < len(res.Viols); i++ {
				if res.Viols[i].Trace == nil {
					res.Viols[i].Trace = ctx.TraceLabels()
				}
			}
			if len(res.Viols) > 30 {
				res.Viols = res.Viols[:30]
			}
			if len(res.Samples) < 1 {
				res.Samples = append(res.Samples, strings.Join(ctx.TraceLabels(), " ; "))
			} else if devs := ctx.Deviations(); len(devs) > 0 && len(res.Samples) < 2 {
				res.Samples = append(res.Samples, "deviations "+strings.Join(devs, " ")+" in: "+strings.Join(ctx.TraceLabels(), " ; "))
			}
			return out
		}, &res.Stats)
		out, _ := json.Marshal(res)
		return out
	}
}

type Opts struct {
	Kind    string
	Param   any
	Bound   int
	Budget  int64 // executions per task
	Recycle int   // restart workers after n tasks
	MemKB   int64
}

// Explore runs the distributed exploration and records the result as a part.
func Explore(r *ev.Run, name string, o Opts) *ev.Part {
	pj, _ := json.Marshal(o.Param)
	if o.Budget == 0 {
		o.Budget = 40
	}
	pool := &par.Pool{Timeout: 15 * time.Minute, Recycle: o.Recycle, MemKB: o.MemKB}
	part := &ev.Part{Name: name, Engine: "E3", Exhaustive: true}
	outcomes := map[string]int64{}
	maxSteps := 0
	var diverged int64
	queue := []explore.Node{{}}
	for len(queue) > 0 {
		if r.Expired() {
			part.Exhaustive = false
			break
		}
		var tasks [][]byte
		chunk := 1
		if len(queue) > 96 {
			chunk = (len(queue) + 95) / 96
		}
		for i := 0; i < len(queue); i += chunk {
			e := i + chunk
			if e > len(queue) {
				e = len(queue)
			}
			j, _ := json.Marshal(Task{Param: pj, Nodes: queue[i:e], Bound: o.Bound, Budget: o.Budget})
			tasks = append(tasks, j)
		}
		queue = nil
		pool.Map(o.Kind, tasks, func(pr par.Result) {
			if pr.Err != nil {
				r.Violate(name, "worker-crash", fmt.Sprintf("%v\n%s", pr.Err, par.TrimStderr(pr.Stderr)), map[string]any{"stderr": par.TrimStderr(pr.Stderr)})
				return
			}
			var res TaskResult
			if err := json.Unmarshal(pr.Out, &res); err != nil {
				ev.Fatal("bad worker result: %v", err)
			}
			part.Executions += res.Stats.Executions
			part.Transitions += res.Stats.Steps
			if res.Stats.MaxSteps > maxSteps {
				maxSteps = res.Stats.MaxSteps
			}
			for k, v := range res.Stats.Outcomes {
				if strings.HasPrefix(k, "DIVERGED") {
					// the implementation did not repeat its own behaviour under the same schedule, three times in a
					// row: the subtree below that prefix stays unexplored and the part is not exhaustive
					diverged += v
					part.Exhaustive = false
					if diverged == v {
						fmt.Fprintf(os.Stderr, "WARNING: %s: persistent replay divergence (subtree left unexplored): %s\n", name, k)
						part.Note = "persistent replay divergence, subtree unexplored: " + k
					}
					continue
				}
				outcomes[k] += v
			}
			for _, v := range res.Viols {
				r.Violate(name, v.Sig, v.Msg+"\n  choices: "+strings.Join(v.Trace, " ; "), map[string]any{"scenario": name, "param": o.Param, "choices": v.Trace})
			}
			for _, s := range res.Samples {
				if len(part.Samples) < 3 {
					part.Samples = append(part.Samples, s)
				}
			}
			queue = append(queue, res.Kids...)
		}, func() bool { return r.Expired() })
	}
	if len(queue) > 0 {
		part.Exhaustive = false
	}
	var ks []string
	for k, v := range outcomes {
		ks = append(ks, fmt.Sprintf("%s:%d", k, v))
	}
	sort.Strings(ks)
	part.States = int64(len(outcomes))
	part.Distinct = int64(len(outcomes))
	part.Bound = fmt.Sprintf("deviation bound %d completed=%v; longest execution %d steps; outcomes {%s}; param %s", o.Bound, part.Exhaustive, maxSteps, strings.Join(ks, " "), pj)
	if diverged > 0 {
		part.Bound += fmt.Sprintf("; %d prefixes diverged persistently on replay and were left unexplored", diverged)
	}
	r.AddPart(part)
	return part
}

// Replay re-executes a recorded violation of an E3 check from its list of choices.
func Replay(v *ev.Violation, run RunFn) {
	var choices []string
	var param json.RawMessage
	if !v.ReplayField("choices", &choices) {
		if !v.ReplayField("schedule", &choices) {
			fmt.Println("  (no recorded choices in this replay file)")
			return
		}
	}
	v.ReplayField("param", &param)
	for round := 1; round <= 2; round++ {
		ctx := explore.NewCtx(nil)
		ctx.Follow = choices
		var viols []Viol
		out := run(param, ctx, &viols)
		fmt.Printf("  re-execution %d: outcome %s, %d choice points", round, out, len(ctx.Trace))
		if ctx.Diverged != "" {
			fmt.Printf(", DIVERGED: %s", ctx.Diverged)
		}
		fmt.Println()
		for _, x := range viols {
			fmt.Printf("    violation %s: %s\n", x.Sig, x.Msg)
		}
		if len(viols) == 0 {
			fmt.Println("    no violation in this re-execution")
		}
	}
}
