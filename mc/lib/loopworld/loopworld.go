// Package loopworld is the sync-loop scenario of engine E3: one real
// Syncer.Sync loop with its receiver, downloaders and cleaner goroutines on a
// scratch LMDB, a harness bucket, harness-owned clock and timers, an
// application that commits transactions at the loop's decision points, and
// scripted remote snapshots. The environment answers are the choice points of
// the explorer; goroutine scheduling follows a fixed deterministic policy
// (background work runs to completion before the loop continues).
package loopworld

import (
	"context"
	"fmt"
	"github.com/PowerDNS/lightningstream/syncer"
	"github.com/PowerDNS/lightningstream/syncer/hooks"
	"os"
	"sort"
	"strings"
	"sync"
	"time"

	"github.com/PowerDNS/lightningstream/config"
	"github.com/PowerDNS/lightningstream/snapshot"
	"github.com/PowerDNS/lightningstream/utils/verifhook"
	"github.com/PowerDNS/lmdb-go/lmdb"

	"verif/lib/explore"
	"verif/lib/fleet"
	"verif/lib/inst"
	"verif/lib/sched"
	"verif/lib/world"
)

type Cfg struct {
	Native      bool     `json:"native"`
	AppPoints   []string `json:"app_points"` // hook points at which application commits are offered (nil = all loop hooks)
	AppOps      []string `json:"app_ops"`
	Remote2     bool     `json:"remote2"`      // a second remote snapshot may appear
	StoreFaults int      `json:"store_faults"` // Store may fail (each failure is a deviation), at most this many in a row
	LoadFaults  bool     `json:"load_faults"`
	Cancel      bool     `json:"cancel"`
	Straddle    bool     `json:"straddle"` // application transactions that span the start of a Lightning Stream transaction
	OnlyOnce    bool     `json:"only_once"`
	IdleIters   int      `json:"idle_iters"`
	MaxVisits   int      `json:"max_visits"` // offer deviations only at the first n visits of a hook point (0 = always)
	EmptyStart  bool     `json:"empty_start"`
	Sweeper     bool     `json:"sweeper"`
	Cleaner     bool     `json:"cleaner"`
	LoopFirst   bool     `json:"loop_first"`  // the loop may move on while a download is still in flight
	ListFaults  bool     `json:"list_faults"` // the initial listing may fail
	NoopRemote  bool     `json:"noop_remote"` // instance r may re-publish its newest snapshot with unchanged content (once)
	// Corrupt: "only" = the single blob of remote instance r is undecodable; "newest" = r's newest blob is
	// undecodable, its older one is valid (C08)
	Corrupt string `json:"corrupt"`
	// ForceInterval: storage_force_snapshot_interval is enabled; "the interval elapses" is an environment answer (once)
	ForceInterval bool `json:"force_interval"`
	// QuietPeriod: forced snapshots are disabled (interval 0); "a very long time passes" is an environment answer (once):
	// nothing may be uploaded because of it
	QuietPeriod bool `json:"quiet_period"`
	// ListOutage: every List call fails with an ordinary storage error, also after cancellation (a backend that does
	// not look at the context); the only thing explored is when the context is cancelled. Sync must return then.
	ListOutage bool `json:"list_outage"`
	// ReceiveOnly: the instance runs in receive-only mode (it merges, never uploads); the application still writes locally
	ReceiveOnly bool `json:"receive_only"`
	// SweeperFires (with Sweeper): a stale deletion marker exists locally and "the tomb sweeper's timer fires" is an
	// environment answer (once): the sweep runs to completion before the loop continues
	SweeperFires bool `json:"sweeper_fires"`
	// OtherUpdates: the OtherUpdateSource extension hook is set; "an update of another kind for instance r arrives" is an
	// environment answer (once). FirstLoadFails: the first download of r's snapshot fails (scripted, no cost).
	OtherUpdates   bool `json:"other_updates"`
	FirstLoadFails bool `json:"first_load_fails"`
	RetryCount     int  `json:"retry_count"` // storage_retry_count (default 3); with StoreFaults >= RetryCount a whole upload can fail
	TwoRemotes     bool `json:"two_remotes"` // two remote instances with disjoint keys; both snapshots may wait in the receiver at once
}

var LoopHooks = []string{"sync.loopTop", "sync.beforeLoad", "load.beforeTxn", "load.afterTxn", "sync.afterLoad", "sync.beforeInfo", "sync.beforeSend", "send.beforeTxn", "send.afterTxn", "send.beforeStore", "send.afterStore", "sync.afterSendCheck", "sync.afterStartupCapture"}
var DefaultOps = []string{"put-b", "put-a", "del-a", "same-a", "newdbi", "emptytxn"}

type Viol struct{ Sig, Msg string }

type appVer struct {
	del bool
	val string
	ts  uint64 // native
	at  string // hook point at which the commit happened
}

type World struct {
	Cfg   Cfg
	S     *sched.Sched
	B     *world.Bucket
	A     *inst.Inst
	clock uint64
	mu    sync.Mutex

	touched           map[string]appVer // "dbi/key" -> last application operation
	commits           int
	stores            int
	storeFail         int
	loads             int
	Viols             []Viol
	remote2           []byte
	remote2N          string
	r2shown           bool
	noopShown         bool
	overdue           bool // the forced-snapshot interval elapses before the loop's next deadline check
	forced            int
	quietUsed         bool
	sweeperFired      bool
	outageSleeps      int
	otherCh           chan snapshot.Update
	otherSent         bool
	firstLoadFailed   bool
	txnBeforeLoad     int64
	appTxns           []int64 // ids of the application's committed transactions
	lastUploadTxn     int64
	lastUploadContent string
	uploads           int
	forcedUsed        int
	hdrSeen           map[string]string // raw values of LS-written DBIs at the last application commit / LS transaction
	straddleKey       string
	straddleCommitted bool
	emptyLoad         bool
	visits            map[string]int
	idle              int
	activity          bool // a Store or a merge happened since the loop's last poll sleep
	bucketVer         int
	listedVer         int
	cancel            context.CancelFunc
	cancelled         bool
	syncErr           error
	syncDone          chan struct{}
	lastHook          string
	lastLSTxnEmpty    bool
	straddle          *straddleTxn
	commitAt          []string
	storesAfterQuiet  int
	lastSeq           int
	bookSeq           int
	loopFirsts        int
	cancelStep        int
	listFail          int
	cleanerFires      int
	prevJ             map[string]world.Ver
	pending           int // decoded snapshots handed to the receiver and not yet taken by the loop
	pendingMax        int
	remoteQ2          []byte
	remoteQ2N         string
	lastTxn           int64
}

type straddleTxn struct {
	done chan struct{}
}

const base = uint64(1_500_000_000_000_000_000)

func (w *World) now() uint64 {
	w.mu.Lock()
	defer w.mu.Unlock()
	w.clock += 1000
	return w.clock
}

func threadOf(point, name, stack string) string {
	switch {
	case strings.Contains(stack, "(*Downloader).Run"):
		if strings.HasPrefix(point, "dl.") {
			return "dl:" + name
		}
		if ni, err := snapshot.ParseName(name); err == nil {
			return "dl:" + ni.InstanceID
		}
		return "dl:?"
	case strings.Contains(stack, "(*Receiver).Run("):
		return "receiver"
	case strings.Contains(stack, "cleaner.(*Worker).Run"):
		return "cleaner"
	case strings.Contains(stack, "(*Sweeper).Run"):
		return "sweeper"
	case strings.Contains(stack, "(*Syncer).syncLoop"):
		return "sync"
	}
	t, _, _ := strings.Cut(point, ".")
	return t
}

func sleepKey(d time.Duration) string {
	switch d {
	case inst.PollLMDB:
		return "lmdbpoll"
	case inst.PollStorage:
		return "storagepoll"
	case inst.RetryStorage:
		return "retry"
	case time.Second:
		return "initlist"
	}
	if d >= 5*time.Minute && d <= 9*time.Minute {
		return "cleaner" // SleepContextPerturb(7 min): 80%..120%
	}
	if d == 11*time.Minute {
		return "sweeper"
	}
	return "other"
}

// buildRemotes creates the scripted remote instance's snapshots with real code.
// noopR: re-publications of instance r's snapshots 1 and 2 under later names with unchanged content
// (what a periodic forced snapshot of an idle instance looks like). Filled by buildRemotes("r").
var noopR struct {
	n1b, n2b string
	d1b, d2b []byte
}

func buildRemotes(name string) (n1 string, d1 []byte, n2 string, d2 []byte) {
	tmp := world.NewBucket()
	r := inst.New(name, tmp, inst.Opt{Native: true})
	if name != "r" {
		return buildRemotesQ(r, tmp)
	}
	defer r.Destroy()
	var clk uint64 = base - 5_000_000_000
	verifhook.SetNow(func(string, time.Time) time.Time { return time.Unix(0, int64(clk)) })
	r.AppTxn(func(txn *lmdb.Txn) error {
		inst.NativePut(txn, "d", []byte("a"), 5, false, []byte("old"))
		inst.NativePut(txn, "d", []byte("b"), 6, false, []byte("rb"))
		inst.NativePut(txn, "e", []byte("ek"), 7, false, []byte("ev"))
		return nil
	})
	if _, err := r.Send(); err != nil {
		panic(err)
	}
	clk += 400_000_000
	if _, err := r.Send(); err != nil { // unchanged content, later name
		panic(err)
	}
	clk += 600_000_000
	r.AppTxn(func(txn *lmdb.Txn) error {
		inst.NativePut(txn, "d", []byte("b"), 8, false, []byte("rb2"))
		inst.NativePut(txn, "d", []byte("c"), 9, true, nil)
		inst.NativePut(txn, "d", []byte("a"), 8, true, nil) // an old deletion of a key the application has re-written since
		return nil
	})
	if _, err := r.Send(); err != nil {
		panic(err)
	}
	clk += 400_000_000
	if _, err := r.Send(); err != nil { // unchanged content, later name
		panic(err)
	}
	names := tmp.Names()
	if len(names) != 4 {
		panic(fmt.Sprint("expected 4 snapshots of r: ", names))
	}
	d1, _ = tmp.Get(names[0])
	d2, _ = tmp.Get(names[2])
	noopR.n1b, noopR.n2b = names[1], names[3]
	noopR.d1b, _ = tmp.Get(names[1])
	noopR.d2b, _ = tmp.Get(names[3])
	return names[0], d1, names[2], d2
}

// buildRemotesQ: a second remote instance whose keys are disjoint from everything else.
func buildRemotesQ(r *inst.Inst, tmp *world.Bucket) (n1 string, d1 []byte, n2 string, d2 []byte) {
	defer r.Destroy()
	var clk uint64 = base - 4_500_000_000
	verifhook.SetNow(func(string, time.Time) time.Time { return time.Unix(0, int64(clk)) })
	r.AppTxn(func(txn *lmdb.Txn) error {
		inst.NativePut(txn, "d", []byte("q1"), 15, false, []byte("qv1"))
		return nil
	})
	if _, err := r.Send(); err != nil {
		panic(err)
	}
	clk += 1_000_000_000
	r.AppTxn(func(txn *lmdb.Txn) error {
		inst.NativePut(txn, "d", []byte("q2"), 16, false, []byte("qv2"))
		return nil
	})
	if _, err := r.Send(); err != nil {
		panic(err)
	}
	names := tmp.Names()
	d1, _ = tmp.Get(names[0])
	d2, _ = tmp.Get(names[1])
	return names[0], d1, names[1], d2
}

// Judged reports whether a violation signature is to be reported by a check that owns the given
// property prefixes ("c09", ...): its own oracles plus the generic ones (loop stuck, never idle, malformed DBI).
func Judged(sig string, own ...string) bool {
	if len(sig) > 4 && sig[0] == 'c' && sig[3] == ':' && sig[1] >= '0' && sig[1] <= '9' {
		for _, o := range own {
			if strings.HasPrefix(sig, o+":") {
				return true
			}
		}
		return false
	}
	return true
}

type Result struct {
	Outcome string
	Viols   []Viol
	Steps   int
	Stores  int
	Commits int
	Loads   int
	Trace   []string
}

func (w *World) viol(sig, msg string) {
	for _, v := range w.Viols {
		if v.Sig == sig {
			return
		}
	}
	w.Viols = append(w.Viols, Viol{sig, msg})
}

// appOp commits one application transaction. Transactions that change nothing
// are not recorded by LMDB and are not counted as commits.
// retryHeld: the loop goroutine is in the middle of an iteration (not sleeping until its next poll).
func retryHeld(parked []*sched.P) bool {
	for _, p := range parked {
		if p.Thread == "sync" || p.Thread == "syncmain" {
			return p.Point != "sleep.lmdbpoll"
		}
	}
	return true
}

// culpritHook names the application commit a whole-run failure (loop died, mirror inconsistent) is attributed to:
// the first commit that landed in one of the two windows after an empty Lightning Stream transaction (the known
// root causes), else the last commit.
func (w *World) culpritHook() string {
	for _, h := range w.commitAt {
		if h == "load.afterTxn(empty-txn)" || (!w.Cfg.Native && (h == "send.afterTxn" || h == "send.afterTxn+straddle")) {
			return h
		}
	}
	if len(w.commitAt) > 0 {
		return w.commitAt[len(w.commitAt)-1]
	}
	return "none"
}

// hookLabel names the point of the loop at which the application acts. A commit right after a load
// transaction that changed nothing (LMDB does not record it and hands its id to the next committer)
// is a window of its own.
func (w *World) hookLabel() string {
	if w.lastHook == "load.afterTxn" && w.emptyLoad {
		return "load.afterTxn(empty-txn)"
	}
	return w.lastHook
}

func (w *World) appOp(op string) {
	native := w.Cfg.Native
	staged := map[string]appVer{}
	before := w.A.Env.LastTxnID()
	view := w.appView()
	put := func(txn *lmdb.Txn, dbi, k, v string) {
		if native {
			ts := w.now()
			inst.NativePut(txn, dbi, []byte(k), ts, false, []byte(v))
			staged[dbi+"/"+k] = appVer{val: v, ts: ts, at: w.hookLabel()}
		} else {
			inst.PlainPut(txn, dbi, 0, []byte(k), []byte(v))
			staged[dbi+"/"+k] = appVer{val: v, at: w.hookLabel()}
		}
	}
	var appTxnID int64
	w.A.AppTxn(func(txn *lmdb.Txn) error {
		appTxnID = int64(txn.ID())
		switch op {
		case "put-b":
			put(txn, "d", "b", fmt.Sprintf("B%d", w.commits))
		case "put-a":
			put(txn, "d", "a", fmt.Sprintf("A%d", w.commits))
		case "same-a":
			// write the value the application currently sees again
			cur, ok := view["d"]["a"]
			if !ok {
				cur = "x"
			}
			put(txn, "d", "a", cur)
		case "del-a":
			if native {
				ts := w.now()
				inst.NativePut(txn, "d", []byte("a"), ts, true, nil)
				staged["d/a"] = appVer{del: true, ts: ts, at: w.hookLabel()}
			} else {
				inst.PlainDel(txn, "d", 0, []byte("a"), nil)
				staged["d/a"] = appVer{del: true, at: w.hookLabel()}
			}
		case "put-empty-c":
			// a new key with an empty value (docs/schema.md recommends empty values for set-like data)
			put(txn, "d", "c", "")
		case "newdbi":
			put(txn, "n", fmt.Sprintf("nk%d", w.commits), "nv")
		case "emptytxn":
		}
		return nil
	})
	if w.A.Env.LastTxnID() == before {
		return // nothing changed: LMDB did not record the transaction
	}
	for k, v := range staged {
		w.touched[k] = v
	}
	w.commits++
	w.commitAt = append(w.commitAt, w.hookLabel())
	w.appTxns = append(w.appTxns, appTxnID)
	w.hdrSeen = w.hdrDump()
}

func (w *World) appView() map[string]map[string]string {
	d := w.A.Env.RawDump()
	if w.Cfg.Native {
		out := map[string]map[string]string{}
		lc, err := world.HeaderLC(d, world.PickNative)
		if err != nil {
			w.viol("native-dbi-malformed", err.Error())
			return out
		}
		for dbi, m := range lc {
			out[dbi] = map[string]string{}
			for k, v := range m {
				if !v.Deleted {
					out[dbi][k] = v.Val
				}
			}
		}
		return out
	}
	return world.PlainContent(d, world.PickNative)
}

// hdrDump: the raw values of all DBIs whose values Lightning Stream writes (native mode: the application
// DBIs; shadow mode: the shadow DBIs).
func (w *World) hdrDump() map[string]string {
	out := map[string]string{}
	for _, d := range w.A.Env.RawDump() {
		if w.Cfg.Native == strings.HasPrefix(d.Name, "_sync") {
			continue
		}
		for _, e := range d.Entries {
			out[d.Name+"/"+string(e.Key)] = string(e.Val)
		}
	}
	return out
}

// checkC14: every value written by the transaction Lightning Stream just committed carries that
// transaction's id in its header (and a well-formed header).
func (w *World) checkC14(at string) {
	cur := w.hdrDump()
	last := w.A.Env.LastTxnID()
	for k, raw := range cur {
		if w.hdrSeen[k] == raw {
			continue
		}
		if w.straddleKey != "" && (k == w.straddleKey || k == world.ShadowPrefix+w.straddleKey) && w.Cfg.Native {
			continue // written by the straddling application transaction itself
		}
		h, _, err := world.ReadHdr([]byte(raw))
		if err != nil {
			w.viol("c14:malformed-value-written", fmt.Sprintf("at %s: %s = %x: %v", at, k, raw, err))
			continue
		}
		if int64(h.TxnID) != last {
			w.viol("c14:header-txnid-differs-from-writing-transaction", fmt.Sprintf("at %s: %s was written by LMDB transaction %d but its header says transaction %d (application commits at %v)", at, k, last, h.TxnID, w.commitAt))
		}
	}
	w.hdrSeen = cur
	// the straddling transaction's own write stays excluded until the check that follows its commit (a straddle opened
	// before a read-only dump commits only at the next write transaction of the loop)
	// (w.mu is held by the caller)
	if w.straddleCommitted {
		w.straddleKey = ""
		w.straddleCommitted = false
	}
}

// checkC03: whatever the application committed is still there.
func (w *World) checkC03(where string) {
	view := w.appView()
	for dk, av := range w.touched {
		dbi, k, _ := strings.Cut(dk, "/")
		got, ok := view[dbi][k]
		bad := false
		if av.del {
			bad = ok
		} else {
			bad = !ok || got != av.val
		}
		if bad {
			mode := "shadow"
			if w.Cfg.Native {
				mode = "native"
			}
			w.viol(fmt.Sprintf("c03:%s:commit@%s:destroyed", mode, av.at),
				fmt.Sprintf("at %s: application committed %s=%+v (commits at %v) but now sees (%q, present=%v)", where, dk, av, w.commitAt, got, ok))
		}
	}
}

func (w *World) newestOwn() (string, world.LC) {
	n := ""
	for _, name := range w.B.Names() {
		if strings.HasPrefix(name, inst.DBName+"__a__") {
			n = name
		}
	}
	if n == "" {
		return "", nil
	}
	data, _ := w.B.Get(n)
	lc, _, err := fleet.SnapLC(data)
	if err != nil {
		w.viol("own-snapshot-undecodable", err.Error())
		return n, nil
	}
	return n, lc
}

// noteUpload (native mode): an upload other than the start-up snapshot is justified only by an application
// transaction committed after the LMDB transaction the previous upload was an image of (or by an elapsed
// forced-snapshot interval). Merges of remote snapshots commit transactions too; they justify nothing.
func (w *World) noteUpload(name string) {
	if !strings.HasPrefix(name, inst.DBName+"__a__") {
		return
	}
	data, _ := w.B.Get(name)
	snap, err := snapshot.LoadData(data)
	if err != nil {
		return
	}
	content := ""
	if lc, _, err := fleet.SnapLC(data); err == nil {
		content = lc.String()
	}
	prevContent := w.lastUploadContent
	w.lastUploadContent = content
	cur := snap.Meta.LmdbTxnID
	prev := w.lastUploadTxn
	w.lastUploadTxn = cur
	w.uploads++
	if w.uploads == 1 {
		return // start-up snapshot (or the first upload of a fresh instance)
	}
	w.mu.Lock()
	forced := w.forced > w.forcedUsed
	if forced {
		w.forcedUsed++
	}
	apps := append([]int64{}, w.appTxns...)
	w.mu.Unlock()
	if forced {
		return
	}
	// both modes: two consecutive uploads with the same content (the application alphabet never re-creates a
	// previous state exactly: native writes carry fresh timestamps, captures stamp the time of detection)
	if content != "" && content == prevContent {
		mode := map[bool]string{true: "native", false: "shadow"}[w.Cfg.Native]
		w.viol("c10:echo-upload-identical-content:"+mode, fmt.Sprintf("upload %s has exactly the content of the previous upload (application commits at %v)", name, w.commitAt))
	}
	if !w.Cfg.Native {
		return
	}
	for _, c := range apps {
		if c > prev && c <= cur {
			return
		}
	}
	w.viol("c10:echo-upload:native", fmt.Sprintf("upload %s is the image of LMDB transaction %d, the previous upload of transaction %d; no application transaction was committed in between (application transactions %v, commits at %v)", name, cur, prev, apps, w.commitAt))
}

// checkC11 (shadow mode, at idle): the application's DBIs hold exactly the live entries of the shadow DBIs, and the
// last change the application made to a key is the version the shadow DBI holds for it.
func (w *World) checkC11() {
	if w.Cfg.Native {
		return
	}
	dump := w.A.Env.RawDump()
	app := world.PlainContent(dump, world.PickNative)
	lc, err := world.HeaderLC(dump, world.PickShadow)
	if err != nil {
		w.viol("c11:shadow-dbi-malformed", err.Error())
		return
	}
	at := w.culpritHook()
	live := map[string]map[string]string{}
	for d, m := range lc {
		live[d] = map[string]string{}
		for k, v := range m {
			if !v.Deleted {
				live[d][k] = v.Val
			}
		}
	}
	for d := range app {
		if _, ok := live[d]; !ok {
			live[d] = map[string]string{}
		}
	}
	for d := range live {
		if _, ok := app[d]; !ok {
			app[d] = map[string]string{}
		}
	}
	if a, l := world.PlainString(app), world.PlainString(live); a != l {
		w.viol(fmt.Sprintf("c11:commit@%s:application-dbis-differ-from-merged-state", at),
			fmt.Sprintf("loop idle: application DBIs %s, live entries of the shadow DBIs %s (application commits at %v)", a, l, w.commitAt))
	}
}

// checkC09: at idle, the newest own snapshot reflects every application commit.
func (w *World) checkC09() {
	if len(w.touched) == 0 || w.Cfg.ReceiveOnly {
		return // (a receive-only instance publishes nothing, by design)
	}
	name, lc := w.newestOwn()
	mode := "shadow"
	if w.Cfg.Native {
		mode = "native"
	}
	for dk, av := range w.touched {
		dbi, k, _ := strings.Cut(dk, "/")
		got, ok := lc[dbi][k]
		bad := false
		if w.Cfg.Native {
			bad = !ok || got.TS < av.ts || (got.TS == av.ts && (got.Deleted != av.del || got.Val != av.val))
		} else if av.del {
			bad = ok && !got.Deleted
		} else {
			bad = !ok || got.Deleted || got.Val != av.val
		}
		if bad {
			w.viol(fmt.Sprintf("c09:%s:commit@%s:not-published", mode, av.at),
				fmt.Sprintf("loop idle for %d iterations, newest own snapshot %s has %v(present=%v) for %s, application committed %+v (commits at %v, stores %d)", w.idle, name, got, ok, dk, av, w.commitAt, w.stores))
		}
	}
}

// Run performs one execution.
func Run(cfg Cfg, ctx *explore.Ctx) Result {
	if cfg.IdleIters == 0 {
		cfg.IdleIters = 3
	}
	if cfg.AppOps == nil {
		cfg.AppOps = DefaultOps
	}
	points := map[string]bool{}
	if cfg.AppPoints == nil {
		cfg.AppPoints = LoopHooks
	}
	for _, p := range cfg.AppPoints {
		points[p] = true
	}
	w := &World{Cfg: cfg, B: world.NewBucket(), clock: base, touched: map[string]appVer{}, visits: map[string]int{}, syncDone: make(chan struct{})}
	n1, d1, n2, d2 := buildRemotes("r")
	var qn1, qn2 string
	var qd1, qd2 []byte
	if cfg.TwoRemotes {
		qn1, qd1, qn2, qd2 = buildRemotes("q")
	}
	verifhook.SetSkip(func(string) bool { return true })
	verifhook.SetNow(func(site string, t time.Time) time.Time {
		if site == "sweeper.cutoff" {
			// the sweeper's cutoff on the logical clock: one day (its configured retention) before now
			return time.Unix(0, int64(w.now())).Add(-24 * time.Hour)
		}
		if site == "sync.lastSnapshotTime" {
			// the deadline of the periodic forced snapshot: real time unless the harness lets the interval elapse
			w.mu.Lock()
			defer w.mu.Unlock()
			if w.overdue {
				w.overdue = false
				return t.Add(-1000 * time.Hour)
			}
			return t
		}
		return time.Unix(0, int64(w.now()))
	})
	opt := inst.Opt{Native: cfg.Native, ReceiveOnly: cfg.ReceiveOnly, Tweak: func(c *config.Config, lc *config.LMDB) {
		c.OnlyOnce = cfg.OnlyOnce
		c.StorageRetryCount = 3
		if cfg.ForceInterval {
			c.StorageForceSnapshotInterval = 100 * time.Hour
		}
		if cfg.RetryCount > 0 {
			c.StorageRetryCount = cfg.RetryCount
		}
	}}
	if cfg.Sweeper {
		opt.Sweeper = &config.Sweeper{Enabled: true, RetentionDays: 1, Interval: 11 * time.Minute, FirstInterval: 11 * time.Minute, LockDuration: time.Second, ReleaseDuration: time.Second}
	}
	if cfg.Cleaner {
		// the cleaner takes "now" from the real clock: all scripted snapshots (logical clock, 2017) are older than any interval
		opt.Cleanup = &config.Cleanup{Enabled: true, Interval: 7 * time.Minute, MustKeepInterval: 0, RemoveOldInstancesInterval: time.Second}
	}
	if cfg.OtherUpdates {
		w.otherCh = make(chan snapshot.Update, 4)
		opt.SyncerOpt = &syncer.Options{Hooks: &hooks.Hooks{OtherUpdateSource: func() <-chan snapshot.Update { return w.otherCh }}}
	}
	w.A = inst.New("a", w.B, opt)
	defer w.A.Destroy()
	// steady state: initial content written and mirrored by a previous complete sync step
	if !cfg.EmptyStart {
		w.A.AppTxn(func(txn *lmdb.Txn) error {
			if cfg.Native {
				inst.NativePut(txn, "d", []byte("a"), w.now(), false, []byte("x"))
			} else {
				inst.PlainPut(txn, "d", 0, []byte("a"), []byte("x"))
			}
			return nil
		})
		if cfg.SweeperFires {
			// a deletion marker far beyond the retention, for the sweeper to find
			w.A.AppTxn(func(txn *lmdb.Txn) error {
				if cfg.Native {
					inst.NativePut(txn, "d", []byte("zold"), 5, true, nil)
				} else {
					inst.NativePut(txn, world.ShadowPrefix+"d", []byte("zold"), 5, true, nil)
				}
				return nil
			})
		}
		if _, err := w.A.Send(); err != nil {
			panic(err)
		}
		if cfg.Native {
			lc, _ := world.HeaderLC(w.A.Env.RawDump(), world.PickNative)
			w.touched["d/a"] = appVer{val: "x", ts: lc["d"]["a"].TS, at: "setup"}
		} else {
			w.touched["d/a"] = appVer{val: "x", at: "setup"}
		}
	}
	w.B.Put(n1, d1)
	w.remote2, w.remote2N = d2, n2
	switch cfg.Corrupt {
	case "only":
		w.B.Remove(n1)
		w.B.Put(n2, []byte("\x1f\x8b this is not a snapshot"))
	case "newest":
		w.B.Put(n2, []byte("\x1f\x8b this is not a snapshot"))
	}
	w.monitor("setup")
	w.hdrSeen = w.hdrDump()
	w.B.AfterMutate = func(op, name string) {
		w.monitor(op + " " + name)
		if op == "store" {
			w.noteUpload(name)
		}
	}
	if cfg.TwoRemotes {
		w.B.Put(qn1, qd1)
		w.remoteQ2, w.remoteQ2N = qd2, qn2
		w.pendingMax = 2
	}

	s := sched.New(ctx)
	w.S = s
	s.ThreadOf = threadOf
	s.SleepKey = sleepKey
	s.ParkPoints = map[string]bool{"sync.start": true, "dl.loadonce": true}
	for _, p := range LoopHooks {
		s.ParkPoints[p] = true
	}
	if cfg.ListOutage {
		w.B.IgnoreCancel = true
	}
	w.B.Hook = func(op, name string) error {
		if cfg.ListOutage && op == "list" {
			s.Park("st."+op, name, []string{"fail"})
			return fmt.Errorf("injected storage outage: connection refused")
		}
		if cfg.FirstLoadFails && op == "load" && strings.Contains(name, "__r__") && !w.firstLoadFailed {
			w.firstLoadFailed = true
			s.Park("st."+op, name, []string{"fail"})
			return fmt.Errorf("injected storage failure (request timeout): %w", context.DeadlineExceeded)
		}
		answers := []string{"ok"}
		if (op == "store" && cfg.StoreFaults > 0) || (op == "load" && cfg.LoadFaults) || (op == "list" && cfg.ListFaults) {
			answers = []string{"ok", "fail"}
		}
		a := s.Park("st."+op, name, answers)
		w.mu.Lock()
		defer w.mu.Unlock()
		if a == 1 {
			if op == "store" {
				w.storeFail++
			}
			if op == "list" {
				w.listFail++
			}
			// like a request that ran into the storage client's timeout (the context of the caller is still alive)
			return fmt.Errorf("injected storage failure (request timeout): %w", context.DeadlineExceeded)
		}
		switch op {
		case "load":
			if data, ok := w.B.Get(name); ok {
				if _, err := snapshot.LoadData(data); err == nil {
					w.pending++
				}
			}
		case "store":
			w.stores++
			w.storeFail = 0
			w.activity = true
			w.bucketVer++
			if w.idle >= 2 {
				w.storesAfterQuiet++
			}
		case "list":
			w.listedVer = w.bucketVer
		}
		return nil
	}
	s.Policy = w.policy(points)
	s.MaxSteps = 1500
	s.Install()
	cctx, cancel := context.WithCancel(context.Background())
	w.cancel = cancel
	s.Go("syncmain", func() {
		w.syncErr = w.A.S.Sync(cctx)
		close(w.syncDone)
	})
	outcome := "horizon"
	lastCommits := -1
	for s.Steps < s.MaxSteps {
		if !s.Step() {
			outcome = "nothing-enabled"
			if os.Getenv("VERIF_SCHED_DEBUG") != "" {
				for _, g := range s.Snapshot() {
					if g.Managed {
						fmt.Printf("NOTHING ENABLED: managed goroutine %d [%s]\n%s\n\n", g.ID, g.State, g.Stack)
					}
				}
			}
			break
		}
		if id := w.A.Env.LastTxnID(); id != w.lastTxn || w.commits != lastCommits {
			w.lastTxn, lastCommits = id, w.commits
			w.checkC03(fmt.Sprintf("step %d (%s)", s.Steps, s.Log[len(s.Log)-1]))
		}
		if w.idle >= cfg.IdleIters && !w.cancelled {
			outcome = "idle"
			break
		}
		if w.cancelled {
			// After cancellation a select may have two ready cases (ctx.Done and a signal): the run is no longer
			// deterministic. Switch to drain mode right away and judge only whether Sync returns.
			outcome = "cancelled"
			break
		}
		select {
		case <-w.syncDone:
			outcome = "sync-returned"
		default:
		}
		if outcome == "sync-returned" {
			break
		}
	}
	s.WaitQuiescent()
	if outcome == "idle" {
		w.checkC09()
		w.checkC11()
		if cfg.Cleaner {
			alive := false
			for _, p := range s.Parked() {
				if p.Thread == "cleaner" || p.Point == "sleep.cleaner" {
					alive = true
				}
			}
			if !alive {
				w.viol("c12:cleaner-goroutine-gone", fmt.Sprintf("the loop is idle and its context alive, but the snapshot cleaner is no longer running (cleaner timer fired %d times, commits at %v)", w.cleanerFires, w.commitAt))
			}
		}
	}
	if s.Steps >= s.MaxSteps {
		w.viol("loop-never-goes-idle", fmt.Sprintf("no %d consecutive idle iterations within %d steps; stores=%d loads=%d", cfg.IdleIters, s.Steps, w.stores, w.loads))
	}
	// stores must be justified: start-up snapshot + one per application commit
	if w.stores > 1+w.commits+w.forced {
		w.viol("c10:unjustified-upload", fmt.Sprintf("%d uploads for %d application commits (plus the start-up snapshot, plus %d elapsed forced-snapshot intervals); commits at %v", w.stores, w.commits, w.forced, w.commitAt))
	}
	if outcome == "nothing-enabled" {
		select {
		case <-w.syncDone:
			outcome = "sync-returned"
		default:
			var stuck []string
			for _, g := range s.BlockedManaged() {
				stuck = append(stuck, g.Top+"@"+g.State)
			}
			sort.Strings(stuck)
			w.viol("loop-stuck", fmt.Sprintf("nothing to schedule and Sync has not returned; blocked: %v", stuck))
		}
	}
	if outcome == "sync-returned" && !w.cancelled && !cfg.OnlyOnce {
		mode := "shadow"
		if cfg.Native {
			mode = "native"
		}
		at := w.culpritHook()
		w.viol(fmt.Sprintf("c03:%s:commit@%s:sync-loop-died", mode, at), fmt.Sprintf("Sync returned by itself with error: %v (application commits at %v)", w.syncErr, w.commitAt))
	}
	if cfg.OnlyOnce {
		if outcome != "sync-returned" {
			w.viol("c16:run-once-does-not-end", fmt.Sprintf("only_once: Sync has not returned (outcome %s, loads %d, stores %d)", outcome, w.loads, w.stores))
		} else {
			if w.syncErr != nil {
				w.viol("c16:run-once-returned-error", fmt.Sprintf("only_once: Sync returned %v", w.syncErr))
			}
			// not earlier: the newest snapshot of every instance present at start-up has been merged
			view := w.appView()
			_, bTouched := w.touched["d/b"]
			if cfg.Corrupt == "only" {
				// nothing decodable of instance r exists: ending without it is right
			} else if (!bTouched && view["d"]["b"] != "rb") || view["e"]["ek"] != "ev" {
				w.viol("c16:run-once-ended-before-merging-all-instances", fmt.Sprintf("only_once: Sync returned after %d merges but the content of instance r's snapshot is not in the LMDB: %s", w.loads, world.PlainString(view)))
			}
		}
	}
	// shut down: cancel, drain, Sync must return
	cancel()
	s.Uninstall()
	s.Drain()
	select {
	case <-w.syncDone:
	case <-time.After(5 * time.Second):
		w.viol("c17:sync-does-not-return-after-cancel@"+w.cancelAt(), fmt.Sprintf("Sync did not return within 5 s (and %d scheduler steps) after its context was cancelled at %s", s.Steps-w.cancelStep, w.cancelAt()))
	}
	verifhook.SetNow(nil)
	// give leftover goroutines of this execution a moment to finish before the environment is destroyed
	s.WaitGone(5 * time.Second)
	return Result{Outcome: outcome, Viols: w.Viols, Steps: s.Steps, Stores: w.stores, Commits: w.commits, Loads: w.loads, Trace: ctx.TraceLabels()}
}

// monitor (C05): the join over the newest snapshot of every instance never loses a key or moves it back.
func (w *World) monitor(what string) {
	j := map[string]world.Ver{}
	for _, in := range []string{"a", "r", "q"} {
		n := ""
		for _, name := range w.B.Names() {
			if strings.HasPrefix(name, inst.DBName+"__"+in+"__") {
				n = name
			}
		}
		if n == "" {
			continue
		}
		data, _ := w.B.Get(n)
		lc, _, err := fleet.SnapLC(data)
		if err != nil {
			continue
		}
		for d, m := range lc {
			for k, v := range m {
				if cur, ok := j[d+"/"+k]; !ok || v.TS > cur.TS {
					j[d+"/"+k] = v
				}
			}
		}
	}
	for k, old := range w.prevJ {
		now, ok := j[k]
		if !ok {
			w.viol("c05:published-data-lost", fmt.Sprintf("after %s the newest snapshots in the bucket no longer contain key %s (was %v); bucket %v", what, k, old, w.B.Names()))
		} else if now.TS < old.TS {
			w.viol("c05:published-data-moved-back", fmt.Sprintf("after %s key %s went back from %v to %v", what, k, old, now))
		}
	}
	w.prevJ = j
}

func (w *World) cancelAt() string {
	for _, l := range w.S.Log {
		if strings.HasPrefix(l, "cancel@") {
			return strings.TrimPrefix(l, "cancel@")
		}
	}
	return "end-of-execution"
}

func (w *World) cancelChoice(s *sched.Sched, at string) sched.Choice {
	return sched.Choice{Label: "cancel@" + at, Cost: 1, Act: &sched.Action{Do: func() {
		w.cancelled = true
		w.cancelStep = s.Steps
		w.cancel()
	}}}
}

// policy: background goroutines with work in progress run first (deterministic
// order); then the loop goroutine, with the environment's answers as options.
func (w *World) policy(appPoints map[string]bool) sched.Policy {
	cfg := w.Cfg
	return func(s *sched.Sched, parked []*sched.P) []sched.Choice {
		var loop, recvSleep, straddle, cleanerSleep, sweeperSleep *sched.P
		var background []*sched.P
		for _, p := range parked {
			switch {
			case p.Thread == "sync" || p.Thread == "syncmain":
				loop = p
			case p.Thread == "straddle":
				straddle = p
			case p.Point == "sleep.storagepoll":
				recvSleep = p
			case p.Point == "sleep.cleaner":
				cleanerSleep = p
			case p.Point == "sleep.sweeper":
				// the tomb sweeper's timer fires only as an explicit environment answer (SweeperFires)
				sweeperSleep = p
			case p.Point == "sleep.retry" && cfg.FirstLoadFails && p.Thread == "dl:r" && retryHeld(parked):
				// the retry of the failed download takes its time: it fires when the loop has nothing else to do
			case strings.HasPrefix(p.Point, "sleep."):
				// retry sleeps of downloaders: fire them as background work
				background = append(background, p)
			case strings.HasPrefix(p.Thread, "dl:") && (p.Point == "dl.loadonce" || p.Point == "st.load") && w.pending > 0 && !(w.pendingMax == 2 && w.pending < 2 && p.Thread != "dl:a"):
				// Receiver.Next picks a random map entry: keep at most one undelivered snapshot
				// in the receiver so that the merge order is decided by the harness
			default:
				background = append(background, p)
			}
		}
		one := func(p *sched.P, ans int) []sched.Choice {
			l := p.Key()
			if len(p.Answers) > 0 {
				l += "=" + p.Answers[ans]
			}
			return []sched.Choice{{Label: l, P: p, Answer: ans}}
		}
		// bookkeeping when the loop goroutine arrives at a new park (whether or not it is its turn)
		if loop != nil && loop.Seq() != w.bookSeq {
			w.bookSeq = loop.Seq()
			w.mu.Lock()
			switch loop.Point {
			case "sleep.lmdbpoll":
				if w.activity || len(background) > 0 {
					w.idle = 0 // not idle while a download is still in flight
				} else {
					w.idle++
				}
				w.activity = false
			case "sync.beforeLoad":
				if w.pending > 0 {
					w.pending--
				}
			case "sync.afterLoad":
				w.loads++
				w.activity = true
			case "load.beforeTxn":
				w.txnBeforeLoad = w.A.Env.LastTxnID()
			case "send.afterTxn":
				w.checkC14(loop.Point)
			case "load.afterTxn":
				w.checkC14(loop.Point)
				w.emptyLoad = w.A.Env.LastTxnID() == w.txnBeforeLoad
			}
			w.visits[loop.Point]++
			w.mu.Unlock()
		}
		// a straddling application transaction commits as soon as the loop is blocked on the LMDB write lock
		if straddle != nil && loop == nil && len(background) == 0 {
			return one(straddle, 0)
		}
		if len(background) > 0 {
			p := background[0]
			out := one(p, 0)
			if (p.Point == "st.load" || (p.Point == "st.list" && p.Thread == "cleaner")) && len(p.Answers) == 2 {
				out = append(out, sched.Choice{Label: p.Key() + "=fail", Cost: 1, P: p, Answer: 1})
			}
			if cfg.OtherUpdates && !w.otherSent {
				out = append(out, sched.Choice{Label: "update-of-another-kind-for-r-arrives", Cost: 1, Act: &sched.Action{Do: func() {
					w.otherSent = true
					ni := snapshot.NameInfo{Kind: "delta", Extension: "delta.gz", SyncerName: inst.DBName, InstanceID: "r", GenerationID: "GX", Timestamp: time.Unix(0, int64(w.now()))}
					ni.FullName = ni.BuildName()
					msg := &snapshot.Snapshot{FormatVersion: snapshot.CurrentFormatVersion, CompatVersion: 1}
					msg.Meta.InstanceID = "r"
					msg.Meta.DatabaseName = inst.DBName
					w.otherCh <- snapshot.Update{Snapshot: msg, NameInfo: ni, OnClose: func(*snapshot.Update) {}}
					w.mu.Lock()
					w.idle = 0
					w.mu.Unlock()
				}}})
			}
			// the loop is faster than the background work (a download is still in flight when the loop moves on)
			if cfg.LoopFirst && loop != nil && straddle == nil && !strings.HasPrefix(loop.Point, "st.") && loop.Point != "start" && w.loopFirsts < 3 {
				lp := loop
				out = append(out, sched.Choice{Label: "loop-runs-first:" + loop.Key(), Cost: 1, Act: &sched.Action{Do: func() { w.loopFirsts++; w.lastHook = lp.Point; s.Release(lp, 0) }}})
			}
			return out
		}
		if loop == nil {
			if straddle != nil {
				return one(straddle, 0)
			}
			return nil
		}
		w.lastHook = loop.Point
		arrived := loop.Seq() != w.lastSeq
		w.lastSeq = loop.Seq()
		// the loop goroutine
		switch {
		case loop.Point == "sleep.lmdbpoll":
			w.mu.Lock()
			needList := w.listedVer != w.bucketVer
			w.mu.Unlock()
			var out []sched.Choice
			if needList && recvSleep != nil {
				out = append(out, sched.Choice{Label: "receiver-polls", P: recvSleep, Answer: 0})
				w.idle = 0
			}
			pollCost := 0
			if len(out) > 0 {
				pollCost = 1 // letting the loop poll before the receiver has seen the new listing is a deviation
			}
			out = append(out, sched.Choice{Label: "lmdb-poll-fires", Cost: pollCost, P: loop, Answer: 0})
			if cfg.Remote2 && !w.r2shown {
				out = append(out, sched.Choice{Label: "remote-snapshot-2-appears", Cost: 1, Act: &sched.Action{Do: func() {
					w.B.Put(w.remote2N, w.remote2)
					if w.remoteQ2 != nil {
						w.B.Put(w.remoteQ2N, w.remoteQ2)
					}
					w.r2shown = true
					w.mu.Lock()
					w.bucketVer++
					w.idle = 0
					w.mu.Unlock()
				}}})
			}
			if cfg.SweeperFires && sweeperSleep != nil && !w.sweeperFired {
				ss := sweeperSleep
				out = append(out, sched.Choice{Label: "sweeper-timer-fires", Cost: 1, Act: &sched.Action{Do: func() {
					w.mu.Lock()
					w.sweeperFired = true
					w.idle = 0
					w.mu.Unlock()
					s.Release(ss, 0)
				}}})
			}
			if cfg.QuietPeriod && !cfg.ForceInterval && !w.quietUsed {
				lp := loop
				out = append(out, sched.Choice{Label: "a-very-long-time-passes", Cost: 1, Act: &sched.Action{Do: func() {
					w.mu.Lock()
					w.quietUsed = true
					w.overdue = true // the loop's deadline base moves 1000 h into the past; with the interval disabled that means nothing
					w.idle = 0
					w.mu.Unlock()
					s.Release(lp, 0)
				}}})
			}
			if cfg.OtherUpdates && !w.otherSent {
				out = append(out, sched.Choice{Label: "update-of-another-kind-for-r-arrives", Cost: 1, Act: &sched.Action{Do: func() {
					w.otherSent = true
					ni := snapshot.NameInfo{Kind: "delta", Extension: "delta.gz", SyncerName: inst.DBName, InstanceID: "r", GenerationID: "GX", Timestamp: time.Unix(0, int64(w.now()))}
					ni.FullName = ni.BuildName()
					msg := &snapshot.Snapshot{FormatVersion: snapshot.CurrentFormatVersion, CompatVersion: 1}
					msg.Meta.InstanceID = "r"
					msg.Meta.DatabaseName = inst.DBName
					w.otherCh <- snapshot.Update{Snapshot: msg, NameInfo: ni, OnClose: func(*snapshot.Update) {}}
					w.mu.Lock()
					w.idle = 0
					w.mu.Unlock()
				}}})
			}
			if cfg.ForceInterval && w.forced == 0 {
				lp := loop
				out = append(out, sched.Choice{Label: "force-snapshot-interval-elapses", Cost: 1, Act: &sched.Action{Do: func() {
					w.mu.Lock()
					w.forced++
					w.overdue = true
					w.idle = 0
					w.mu.Unlock()
					s.Release(lp, 0)
				}}})
			}
			if cfg.NoopRemote && !w.noopShown {
				out = append(out, sched.Choice{Label: "remote-republishes-unchanged-snapshot", Cost: 1, Act: &sched.Action{Do: func() {
					if w.r2shown {
						w.B.Put(noopR.n2b, noopR.d2b)
					} else {
						w.B.Put(noopR.n1b, noopR.d1b)
					}
					w.noopShown = true
					w.mu.Lock()
					w.bucketVer++
					w.idle = 0
					w.mu.Unlock()
				}}})
			}
			if cfg.Cancel && !w.cancelled {
				out = append(out, w.cancelChoice(s, "sleep.lmdbpoll"))
			}
			if cleanerSleep != nil && w.cleanerFires < 3 {
				cs := cleanerSleep
				out = append(out, sched.Choice{Label: "cleaner-timer-fires", Cost: 1, Act: &sched.Action{Do: func() { w.cleanerFires++; w.idle = 0; s.Release(cs, 0) }}})
			}
			return out
		case strings.HasPrefix(loop.Point, "sleep."):
			if cfg.ListOutage && !w.cancelled {
				// the outage never ends: after a few retries the only thing left to happen is the shutdown
				w.outageSleeps++
				if w.outageSleeps > 3 {
					return []sched.Choice{w.cancelChoice(s, loop.Point)}
				}
			}
			out := one(loop, 0)
			if cfg.Cancel && !w.cancelled {
				out = append(out, w.cancelChoice(s, loop.Point))
			}
			if cleanerSleep != nil && w.cleanerFires < 3 {
				cs := cleanerSleep
				out = append(out, sched.Choice{Label: "cleaner-timer-fires", Cost: 1, Act: &sched.Action{Do: func() { w.cleanerFires++; s.Release(cs, 0) }}})
			}
			return out
		case loop.Point == "st.list" && len(loop.Answers) == 2:
			out := one(loop, 0)
			if w.listFail < 2 {
				out = append(out, sched.Choice{Label: loop.Key() + "=fail", Cost: 1, P: loop, Answer: 1, Act: nil})
			}
			return out
		case loop.Point == "st.store":
			out := one(loop, 0)
			if len(loop.Answers) == 2 && w.storeFail < cfg.StoreFaults {
				out = append(out, sched.Choice{Label: loop.Key() + "=fail", Cost: 1, P: loop, Answer: 1})
			}
			return out
		case strings.HasPrefix(loop.Point, "st."):
			return one(loop, 0)
		}
		// a hook point of the loop
		out := one(loop, 0)
		if cfg.Cancel && !w.cancelled && arrived {
			out = append(out, w.cancelChoice(s, loop.Point))
		}
		// hooks passed in every poll iteration are offered deviations only at their first MaxVisits visits
		perIteration := loop.Point == "sync.loopTop" || loop.Point == "sync.beforeInfo" || loop.Point == "sync.afterSendCheck"
		if appPoints[loop.Point] && straddle == nil && (cfg.MaxVisits == 0 || !perIteration || w.visits[loop.Point] <= cfg.MaxVisits) {
			for _, op := range cfg.AppOps {
				op := op
				out = append(out, sched.Choice{Label: "app:" + op + "@" + loop.Point, Cost: 1, Act: &sched.Action{Do: func() {
					w.appOp(op)
					w.idle = 0
				}}})
			}
			if cfg.Straddle && (loop.Point == "load.beforeTxn" || loop.Point == "send.beforeTxn" || loop.Point == "sync.beforeLoad" || loop.Point == "sync.beforeSend") {
				for _, op := range []string{"put-b", "del-a"} {
					op := op
					out = append(out, sched.Choice{Label: "app-straddle:" + op + "@" + loop.Point, Cost: 1, Act: &sched.Action{Do: func() {
						w.startStraddle(op)
						w.idle = 0
					}}})
				}
			}
		}
		return out
	}
}

// startStraddle begins an application write transaction that stays open until
// the loop is blocked on the LMDB write lock (or reaches its next hook).
func (w *World) startStraddle(op string) {
	s := w.S
	s.ExpectLMDBBlock.Store(true)
	w.straddleKey = map[string]string{"put-b": "d/b", "del-a": "d/a"}[op]
	started := make(chan struct{})
	s.Go("straddle", func() {
		// thread body: runs when first released (immediately below)
		at := w.lastHook + "+straddle"
		var key string
		var ver appVer
		var appTxnID int64
		w.A.AppTxn(func(txn *lmdb.Txn) error {
			appTxnID = int64(txn.ID())
			native := w.Cfg.Native
			switch op {
			case "put-b":
				v := fmt.Sprintf("SB%d", w.commits)
				key = "d/b"
				if native {
					ts := w.now()
					inst.NativePut(txn, "d", []byte("b"), ts, false, []byte(v))
					ver = appVer{val: v, ts: ts, at: at}
				} else {
					inst.PlainPut(txn, "d", 0, []byte("b"), []byte(v))
					ver = appVer{val: v, at: at}
				}
			case "del-a":
				key = "d/a"
				if native {
					ts := w.now()
					inst.NativePut(txn, "d", []byte("a"), ts, true, nil)
					ver = appVer{del: true, ts: ts, at: at}
				} else {
					inst.PlainDel(txn, "d", 0, []byte("a"), nil)
					ver = appVer{del: true, at: at}
				}
			}
			close(started)
			// hold the write transaction open until the scheduler lets us commit
			s.Park("app.commit", "", nil)
			// From here on the loop gets the write lock any moment: a goroutine still inside mdb_txn_begin is about to
			// run, not blocked. (Clearing this only after the commit left a window in which a loaded machine could see
			// "everything blocked, nothing parked" - a false loop-stuck alarm met once in a thorough run.)
			s.ExpectLMDBBlock.Store(false)
			return nil
		})
		w.mu.Lock()
		w.touched[key] = ver
		w.straddleCommitted = true
		w.appTxns = append(w.appTxns, appTxnID)
		w.commits++
		w.commitAt = append(w.commitAt, at)
		w.mu.Unlock()
		s.ExpectLMDBBlock.Store(false)
	})
	// let it start its transaction right away (it parks at "start" first)
	s.WaitQuiescent()
	for _, p := range s.Parked() {
		if p.Thread == "straddle" && p.Point == "start" {
			s.Release(p, 0)
		}
	}
	<-started
}
