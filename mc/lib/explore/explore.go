// Package explore is the stateless, deviation-bounded depth-first explorer of
// engine E3. An execution is a function that asks Ctx.Choose at every choice
// point (scheduling decision or environment answer). Option 0 is the default
// answer. The explorer runs the default execution, then for every choice point
// every alternative whose cumulative cost stays within the bound, recursively
// (iterative context bounding: a deviation is a preemption or a non-default
// environment answer). Prefixes are replayed from scratch; a divergence while
// replaying a prefix is a hard harness error.
package explore

import (
	"fmt"
	"strings"
)

type Option struct {
	Label string
	Cost  int
}

// Step is one recorded choice.
type Step struct {
	Chosen  int      `json:"c"`
	Label   string   `json:"l"`
	Options []string `json:"o,omitempty"`
	Costs   []int    `json:"k,omitempty"`
}

// Prefix entry: which option to take at the n-th choice point, and the label
// it must have (replay check).
type PStep struct {
	Chosen int    `json:"c"`
	Label  string `json:"l"`
}

type Ctx struct {
	prefix   []PStep
	Trace    []Step
	Cost     int
	Diverged string
	// MaxChoices bounds the number of choice points at which alternatives are
	// recorded (0 = unlimited). Executions still run to completion.
	MaxBranchPoints int
	// Follow: replay mode, take at every choice point the option with the next label of this list
	// (used to re-execute a recorded violation from its list of choices).
	Follow []string
}

func NewCtx(prefix []PStep) *Ctx { return &Ctx{prefix: prefix} }

// Choose returns the index of the option to take.
func (c *Ctx) Choose(opts []Option) int {
	n := len(c.Trace)
	idx := 0
	if c.Follow != nil && n < len(c.Follow) {
		found := false
		for i, o := range opts {
			if o.Label == c.Follow[n] {
				idx, found = i, true
			}
		}
		if !found && c.Diverged == "" {
			c.Diverged = fmt.Sprintf("choice point %d: recorded choice %q is not offered", n, c.Follow[n])
		}
	} else if n < len(c.prefix) {
		p := c.prefix[n]
		idx = p.Chosen
		if idx >= len(opts) || opts[idx].Label != p.Label {
			var have []string
			for _, o := range opts {
				have = append(have, o.Label)
			}
			if c.Diverged == "" {
				c.Diverged = fmt.Sprintf("choice point %d: prefix wants option %d %q, execution offers %v; trace so far: %v; prefix: %s", n, p.Chosen, p.Label, have, c.TraceLabels(), PrefixString(c.prefix))
			}
			// fall back to a matching label if there is one, else default
			idx = 0
			for i, o := range opts {
				if o.Label == p.Label {
					idx = i
				}
			}
		}
	}
	st := Step{Chosen: idx, Label: opts[idx].Label}
	if n >= len(c.prefix) {
		for _, o := range opts {
			st.Options = append(st.Options, o.Label)
			st.Costs = append(st.Costs, o.Cost)
		}
	}
	c.Cost += opts[idx].Cost
	c.Trace = append(c.Trace, st)
	return idx
}

// InPrefix reports if the execution is still replaying its prefix.
func (c *Ctx) InPrefix() bool { return len(c.Trace) < len(c.prefix) }

// PrefixString renders a prefix / trace compactly.
func PrefixString(p []PStep) string {
	var parts []string
	for _, s := range p {
		parts = append(parts, s.Label)
	}
	return strings.Join(parts, " ; ")
}

func (c *Ctx) TraceLabels() []string {
	var out []string
	for _, s := range c.Trace {
		out = append(out, s.Label)
	}
	return out
}

// Deviations returns the labels of the non-default choices of the trace.
func (c *Ctx) Deviations() []string {
	var out []string
	for i, s := range c.Trace {
		if s.Chosen != 0 {
			out = append(out, fmt.Sprintf("@%d:%s", i, s.Label))
		}
	}
	return out
}

// Result of exploring a subtree.
type Stats struct {
	Executions int64
	Steps      int64
	MaxSteps   int
	Outcomes   map[string]int64
	Truncated  bool // a cap (executions / time) was hit
}

// RunFunc executes one execution under ctx and returns an outcome string
// (for distinct-outcome counting). It reports violations itself.
type RunFunc func(ctx *Ctx) (outcome string)

// Node is a node of the exploration tree: a prefix and its cumulative cost.
type Node struct {
	Prefix []PStep `json:"p"`
	Cost   int     `json:"c"`
}

// RunOne runs the execution of node n once and returns its children (all
// alternatives beyond the prefix that stay within the bound).
func RunOne(n Node, bound int, run RunFunc, st *Stats) []Node {
	if st.Outcomes == nil {
		st.Outcomes = map[string]int64{}
	}
	ctx := NewCtx(n.Prefix)
	out := run(ctx)
	// A divergence while replaying the prefix means the code under test did not behave the same way twice
	// under identical inputs and schedule. Re-execute (twice at most); a persistent divergence leaves this
	// subtree unexplored and is reported by the caller (never silently).
	for retry := 0; ctx.Diverged != "" && retry < 2; retry++ {
		st.Outcomes["(re-executed after a divergence)"]++
		ctx = NewCtx(n.Prefix)
		out = run(ctx)
	}
	st.Executions++
	st.Steps += int64(len(ctx.Trace))
	if len(ctx.Trace) > st.MaxSteps {
		st.MaxSteps = len(ctx.Trace)
	}
	if ctx.Diverged != "" {
		st.Outcomes["DIVERGED: "+ctx.Diverged]++
		return nil
	}
	st.Outcomes[out]++
	var kids []Node
	cost := n.Cost
	for i := len(n.Prefix); i < len(ctx.Trace); i++ {
		s := ctx.Trace[i]
		for alt := range s.Options {
			if alt == s.Chosen || cost+s.Costs[alt] > bound {
				continue
			}
			p := make([]PStep, 0, i+1)
			for j := 0; j < i; j++ {
				p = append(p, PStep{ctx.Trace[j].Chosen, ctx.Trace[j].Label})
			}
			p = append(p, PStep{alt, s.Options[alt]})
			kids = append(kids, Node{p, cost + s.Costs[alt]})
		}
		cost += s.Costs[s.Chosen]
	}
	return kids
}

// Subtree explores node n and everything below it, depth first.
func Subtree(n Node, bound int, run RunFunc, stop func() bool, st *Stats) {
	if stop != nil && stop() {
		st.Truncated = true
		return
	}
	for _, k := range RunOne(n, bound, run, st) {
		Subtree(k, bound, run, stop, st)
	}
}

// Budgeted explores below the given nodes depth first until `budget`
// executions have been run, and returns the nodes it did not get to.
func Budgeted(nodes []Node, bound int, budget int64, run RunFunc, st *Stats) (rest []Node) {
	stack := append([]Node{}, nodes...)
	start := st.Executions
	for len(stack) > 0 {
		if st.Executions-start >= budget {
			return stack
		}
		n := stack[len(stack)-1]
		stack = stack[:len(stack)-1]
		kids := RunOne(n, bound, run, st)
		// push in reverse so that the first alternative is explored first
		for i := len(kids) - 1; i >= 0; i-- {
			stack = append(stack, kids[i])
		}
	}
	return nil
}
