// C01 — replicas converge to the per-key last-writer-wins winner.
// Engine E2: BFS over histories of application writes, uploads and merges of
// any snapshot on 2-3 real instances; after every state the quiescent closure
// is appended and convergence + LWW winner are checked.
package main

import (
	"encoding/json"
	"flag"
	"fmt"
	"sort"
	"strings"
	"time"

	"verif/lib/ev"
	"verif/lib/fleet"
	"verif/lib/par"
	"verif/lib/statemc"
	"verif/lib/world"
)

func oracle(f *fleet.Fleet) []statemc.Viol {
	var out []statemc.Viol
	rounds, err := f.Closure(6)
	if err != nil {
		return []statemc.Viol{{Sig: "closure-impl-error", Msg: err.Error()}}
	}
	if rounds < 0 {
		out = append(out, statemc.Viol{Sig: "closure-does-not-settle", Msg: "state still changing after 6 full exchange rounds"})
	}
	n := len(f.I)
	lc0 := f.LC(0)
	app0 := f.App(0)
	for i := 1; i < n; i++ {
		if li := f.LC(i); !li.Equal(lc0) {
			sig := "replicas-differ"
			if differOnlyInDeletedFlagOfEmpty(lc0, li) {
				sig = "replicas-differ-deleted-vs-live-empty"
			}
			out = append(out, statemc.Viol{Sig: sig, Msg: fmt.Sprintf("after closure instance a has %s but instance %c has %s", lc0, 'a'+i, li)})
		}
		if ai := f.App(i); world.PlainString(ai) != world.PlainString(app0) {
			out = append(out, statemc.Viol{Sig: "application-views-differ", Msg: fmt.Sprintf("after closure application view of a is %s, of %c is %s", world.PlainString(app0), 'a'+i, world.PlainString(ai))})
		}
	}
	// LWW winner
	if f.Cfg.Native {
		for dk, vers := range f.Written {
			d, k, _ := strings.Cut(dk, "/")
			var maxTS uint64
			for _, v := range vers {
				if v.TS > maxTS {
					maxTS = v.TS
				}
			}
			got, ok := lc0[d][k]
			if !ok {
				out = append(out, statemc.Viol{Sig: "written-key-missing", Msg: fmt.Sprintf("key %s was written (%v) but is absent after closure", dk, vers)})
				continue
			}
			isWritten := false
			for _, v := range vers {
				if v == got {
					isWritten = true
				}
			}
			if got.TS != maxTS || !isWritten {
				out = append(out, statemc.Viol{Sig: "winner-not-lww-maximum", Msg: fmt.Sprintf("key %s: versions written %v, converged to %v", dk, vers, got)})
			}
		}
	} else {
		for d, m := range lc0 {
			for k, got := range m {
				dk := d + "/" + k
				var maxTS uint64
				for v := range f.Seen[dk] {
					if v.TS > maxTS {
						maxTS = v.TS
					}
				}
				if got.TS != maxTS {
					out = append(out, statemc.Viol{Sig: "winner-not-lww-maximum", Msg: fmt.Sprintf("key %s: converged to %v although a version with timestamp %d exists", dk, got, maxTS)})
				}
				if got.Deleted && !f.AppVals[dk]["\x00DEL"] {
					sig := "deletion-nobody-made"
					if f.AppVals[dk]["v:"] {
						sig = "shadow-empty-value-turned-into-deletion"
					}
					out = append(out, statemc.Viol{Sig: sig, Msg: fmt.Sprintf("key %s converged to a deletion but no application deleted it (values written: %v)", dk, keys(f.AppVals[dk]))})
				}
				if !got.Deleted && !f.AppVals[dk]["v:"+got.Val] {
					out = append(out, statemc.Viol{Sig: "value-nobody-wrote", Msg: fmt.Sprintf("key %s converged to %v which no application wrote", dk, got)})
				}
			}
		}
		// every key's final content is the last operation of one of the instances that wrote it
		for dk, ops := range f.LastOp {
			d, k, _ := strings.Cut(dk, "/")
			got, ok := lc0[d][k]
			final := "\x00DEL"
			if ok && !got.Deleted {
				final = "v:" + got.Val
			}
			found := false
			for _, o := range ops {
				if o == final {
					found = true
				}
			}
			if !found && !(final == "\x00DEL" && f.AppVals[dk]["v:"]) {
				out = append(out, statemc.Viol{Sig: "shadow-lost-application-write", Msg: fmt.Sprintf("key %s: last application operations per instance %v, but the fleet converged to %q", dk, ops, final)})
			}
		}
		// mirror consistency: application DBIs contain exactly the live entries
		for i := 0; i < n; i++ {
			li := f.LC(i)
			ai := f.App(i)
			for d, m := range li {
				for k, v := range m {
					av, ok := ai[d][k]
					if v.Deleted && ok {
						out = append(out, statemc.Viol{Sig: "deleted-key-visible", Msg: fmt.Sprintf("instance %c: %s/%s is deleted in the merged state but visible to the application", 'a'+i, d, k)})
					}
					if !v.Deleted && (!ok || av != v.Val) {
						sig := "live-key-not-mirrored"
						if v.Val == "" && !ok {
							sig = "shadow-empty-value-not-in-app-dbi"
						}
						out = append(out, statemc.Viol{Sig: sig, Msg: fmt.Sprintf("instance %c: %s/%s is %v in the merged state but application sees (%q,%v)", 'a'+i, d, k, v, av, ok)})
					}
				}
			}
		}
	}
	return out
}

func keys(m map[string]bool) []string {
	var out []string
	for k := range m {
		out = append(out, k)
	}
	sort.Strings(out)
	return out
}

func differOnlyInDeletedFlagOfEmpty(a, b world.LC) bool {
	diff := false
	for d, m := range a {
		for k, v := range m {
			w, ok := b[d][k]
			if !ok {
				return false
			}
			if v != w {
				if v.TS == w.TS && v.Val == "" && w.Val == "" && v.Deleted != w.Deleted {
					diff = true
				} else {
					return false
				}
			}
		}
	}
	return diff
}

func expand(hist []string, param json.RawMessage) statemc.Result {
	var cfg fleet.Cfg
	_ = json.Unmarshal(param, &cfg)
	f, err := fleet.Replay(cfg, hist)
	if err != nil {
		f.Close()
		return statemc.Result{Err: "replay of an already explored history failed: " + err.Error()}
	}
	evs := f.Enabled()
	f.Close()
	var res statemc.Result
	for _, e := range evs {
		g, err := fleet.Replay(cfg, hist)
		if err != nil {
			g.Close()
			return statemc.Result{Err: "replay diverged: " + err.Error()}
		}
		s := statemc.Succ{Ev: e}
		if err := g.Apply(e); err != nil {
			if ie, ok := err.(fleet.ImplError); ok {
				s.Viols = append(s.Viols, statemc.Viol{Sig: "impl-error-" + string(e[0]), Msg: ie.Error()})
				s.Stop = true
				s.Key = fleet.Hash("err:" + strings.Join(hist, " ") + e)
				res.Succs = append(res.Succs, s)
				g.Close()
				continue
			}
			g.Close()
			return statemc.Result{Err: err.Error()}
		}
		s.Key = fleet.Hash(g.Canon())
		s.Viols = append(s.Viols, oracle(g)...)
		s.Term = fleet.Hash(g.LC(0).String())
		g.Close()
		res.Succs = append(res.Succs, s)
	}
	return res
}

func main() {
	flag.Parse()
	par.ServeIfWorker(map[string]par.Handler{"x": statemc.Handler(expand)})
	if v, ok := ev.ReplayRequested(); ok {
		statemc.Replay(v, expand)
		return
	}
	r := ev.Start("C01")
	defer r.RecoverMain()
	defer world.Cleanup()
	r.SetBudget(ev.Pick(r, 600*time.Second, 25*time.Minute))
	r.Assume("tomb sweeper disabled", "shadow mode: one shared monotone logical clock; steady state (all application writes are made while the loop glue runs)",
		"the loop's lastSyncedTxnID bookkeeping is replicated by the harness (SendOnce/LoadOnce are driven directly; the real loop is explored by the E3 checks)",
		"timestamps canonicalised by rank (0 kept): every decision in the merge code compares two timestamps or a timestamp with 0")

	type run struct {
		name  string
		cfg   fleet.Cfg
		depth int
	}
	var runs []run
	if !r.Thorough() {
		runs = []run{
			{"native-2inst-1key", fleet.Cfg{N: 2, Native: true, Keys: []string{"d/a"}, Vals: []string{"", "x", "y"}, TS0: true, NoTick: true, Silent: -1}, 5},
			{"shadow-2inst-1key", fleet.Cfg{N: 2, Native: false, Keys: []string{"d/a"}, Vals: []string{"x", "y"}, NoTick: true, Silent: -1}, 5},
			{"shadow-2inst-emptyvalue", fleet.Cfg{N: 2, Native: false, Keys: []string{"d/a"}, Vals: []string{"", "x"}, Silent: -1}, 3},
			{"native-2inst-2dbi", fleet.Cfg{N: 2, Native: true, Keys: []string{"d/a", "e/b"}, Vals: []string{"x"}, Silent: -1}, 4},
			{"shadow-2inst-2dbi", fleet.Cfg{N: 2, Native: false, Keys: []string{"d/a", "e/b"}, Vals: []string{"x"}, Silent: -1}, 4},
			{"native-3inst", fleet.Cfg{N: 3, Native: true, Keys: []string{"d/a"}, Vals: []string{"x", "y"}, NoTick: true, Silent: -1}, 3},
		}
	} else {
		runs = []run{
			{"native-2inst-1key", fleet.Cfg{N: 2, Native: true, Keys: []string{"d/a"}, Vals: []string{"", "x", "y"}, TS0: true, NoTick: true, Silent: -1}, 6},
			{"shadow-2inst-1key", fleet.Cfg{N: 2, Native: false, Keys: []string{"d/a"}, Vals: []string{"x", "y"}, NoTick: true, Silent: -1}, 6},
			{"shadow-2inst-emptyvalue", fleet.Cfg{N: 2, Native: false, Keys: []string{"d/a"}, Vals: []string{"", "x"}, Silent: -1}, 4},
			{"native-2inst-2dbi", fleet.Cfg{N: 2, Native: true, Keys: []string{"d/a", "e/b"}, Vals: []string{"x", "y"}, Silent: -1}, 5},
			{"shadow-2inst-2dbi", fleet.Cfg{N: 2, Native: false, Keys: []string{"d/a", "e/b"}, Vals: []string{"x", "y"}, Silent: -1}, 5},
			{"native-3inst", fleet.Cfg{N: 3, Native: true, Keys: []string{"d/a"}, Vals: []string{"", "x", "y"}, TS0: true, NoTick: true, Silent: -1}, 5},
			{"shadow-3inst", fleet.Cfg{N: 3, Native: false, Keys: []string{"d/a"}, Vals: []string{"x", "y"}, NoTick: true, Silent: -1}, 5},
			{"native-2inst-2keys-padding", fleet.Cfg{N: 2, Native: true, Keys: []string{"d/a", "d/b"}, Vals: []string{"x", "y"}, Padding: true, Silent: -1}, 5},
		}
	}
	// uploads that fail as a whole (storage outage), closure under the sync loop's own upload rule
	od := ev.Pick(r, 4, 5)
	runs = append(runs,
		run{"native-2inst-outage-looprule", fleet.Cfg{N: 2, Native: true, Keys: []string{"d/a"}, Vals: []string{"x", "y"}, Silent: -1, Outage: true, LoopRule: true}, od},
		run{"shadow-2inst-outage-looprule", fleet.Cfg{N: 2, Native: false, Keys: []string{"d/a"}, Vals: []string{"x", "y"}, Silent: -1, Outage: true, LoopRule: true}, od})
	for ri, rn := range runs {
		if r.Expired() {
			r.AddPart(&ev.Part{Name: rn.name, Engine: "E2", Exhaustive: false, Bound: "not started: time budget used up"})
			continue
		}
		restoreBudget := r.SubBudget(r.Remaining() / time.Duration(len(runs)-ri))
		st := statemc.Run(r, rn.name, "x", rn.cfg, rn.depth, 0)
		restoreBudget()
		cj, _ := json.Marshal(rn.cfg)
		r.AddPart(&ev.Part{Name: rn.name, Engine: "E2", States: st.States, Transitions: st.Transitions, Executions: st.Transitions, Distinct: int64(st.Terminals), Exhaustive: st.Exhaustive,
			Bound:   fmt.Sprintf("BFS depth %d of %d events completed (frontier sizes %v); every state closed by the quiescent closure; cfg %s", st.Depth, rn.depth, st.PerDepth, cj),
			Samples: st.Samples})
	}
	r.Finish()
}
