// C20 — the dupsort hack maps duplicate-key data reversibly or refuses it.
// Engine E1: pair level (encode/decode), set level (all small sets from a
// colliding universe, ordered by a real MDB_DUPSORT DBI), cycle level (real
// mirror passes, SendOnce/LoadOnce between instances with and without the hack).
package main

import (
	"bytes"
	"flag"
	"fmt"
	"io"
	"os"
	"sort"
	"strings"
	"time"

	"github.com/PowerDNS/lightningstream/snapshot"
	"github.com/PowerDNS/lightningstream/syncer"
	"github.com/PowerDNS/lmdb-go/lmdb"

	"verif/lib/ev"
	"verif/lib/inst"
	"verif/lib/world"
)

func rep(c byte, n int) []byte { return bytes.Repeat([]byte{c}, n) }

// all strings of length n over alphabet, as prefix/suffix material
func words(alpha []byte, n int) [][]byte {
	out := [][]byte{{}}
	for i := 0; i < n; i++ {
		var next [][]byte
		for _, w := range out {
			for _, a := range alpha {
				next = append(next, append(append([]byte{}, w...), a))
			}
		}
		out = next
	}
	return out
}

type pair struct{ k, v []byte }

func pairsString(ps []pair) string {
	var sb strings.Builder
	for _, p := range ps {
		fmt.Fprintf(&sb, "(%s=%s)", sh(p.k), sh(p.v))
	}
	return sb.String()
}
func sh(b []byte) string {
	if len(b) > 16 {
		return fmt.Sprintf("%x..%x[%d]", b[:4], b[len(b)-4:], len(b))
	}
	return fmt.Sprintf("%x", b)
}

func readPairs(env *world.Env, dbiName string) []pair {
	var out []pair
	_ = env.View(func(txn *lmdb.Txn) error {
		dbi, err := txn.OpenDBI(dbiName, 0)
		if err != nil {
			return nil
		}
		c, _ := txn.OpenCursor(dbi)
		defer c.Close()
		for f := uint(lmdb.First); ; f = lmdb.Next {
			k, v, err := c.Get(nil, nil, f)
			if err != nil {
				break
			}
			out = append(out, pair{append([]byte{}, k...), append([]byte{}, v...)})
		}
		return nil
	})
	return out
}

func main() {
	flag.Parse()
	if v, ok := ev.ReplayRequested(); ok {
		fmt.Printf("  this check enumerates inputs; the replay artefact names the failing input directly: %v\n", v.Replay)
		return
	}
	r := ev.Start("C20")
	defer r.RecoverMain()
	defer world.Cleanup()
	r.Assume("keys over {00,01,'a'} at the positions next to the separator and the length byte, filler elsewhere; LMDB's default byte-wise dupsort value order")

	alpha := []byte{0, 1, 'a'}
	T0 := time.Now()
	lap := func(n string) {
		if os.Getenv("VERIF_LAP") != "" {
			fmt.Fprintln(os.Stderr, "lap", n, time.Since(T0))
		}
	}

	// ---------- pair level ----------
	pp := &ev.Part{Name: "pair-encode-decode", Engine: "E1", Exhaustive: true}
	pclasses := map[string]bool{}
	var keys, vals [][]byte
	for _, kl := range []int{1, 2, 3, 250, 254, 255, 256, 0} {
		if kl <= 3 {
			keys = append(keys, words(alpha, kl)...)
			continue
		}
		// exhaustive 2-byte prefixes and suffixes, filler in between
		for _, pre := range words(alpha, 2) {
			for _, suf := range words(alpha, 2) {
				k := append(append(append([]byte{}, pre...), rep('f', kl-4)...), suf...)
				keys = append(keys, k)
			}
		}
	}
	for _, vl := range []int{0, 1, 2, 4, 5, 249, 250, 251, 252, 500, 501, 502, 503, 504, 505, 506, 507, 508, 509, 510, 511, 512, 4000} {
		if vl <= 2 {
			vals = append(vals, words(alpha, vl)...)
			continue
		}
		for _, pre := range words(alpha, 2) {
			for _, suf := range words(alpha, 1) {
				v := append(append(append([]byte{}, pre...), rep('g', vl-3)...), suf...)
				vals = append(vals, v)
			}
		}
	}
	for _, k := range keys {
		for _, v := range vals {
			if !r.Thorough() && len(k) > 3 && len(v) > 5 && (len(k)+len(v))%3 != 0 {
				continue
			}
			pp.Executions++
			pp.Transitions += 2
			enc, err := syncer.VerifDupSortHackEncodeOne(snapshot.KV{Key: k, Value: v, Flags: 1, TimestampNano: 5})
			rep := map[string]any{"key": fmt.Sprintf("%x", k), "val": sh(v)}
			if len(k) == 0 || len(k) > 255 {
				pclasses["refused"] = true
				if err == nil {
					r.Violate(pp.Name, "unsupported-key-length-accepted", fmt.Sprintf("key of %d bytes accepted", len(k)), rep)
				}
				continue
			}
			if err != nil {
				r.Violate(pp.Name, "valid-pair-refused", fmt.Sprintf("key %s val %s: %v", sh(k), sh(v), err), rep)
				continue
			}
			if len(enc.Key) > 511 || len(enc.Key) == 0 {
				r.Violate(pp.Name, "encoded-key-illegal-length", fmt.Sprintf("key %s val %s -> %d bytes", sh(k), sh(v), len(enc.Key)), rep)
			}
			if !bytes.Equal(enc.Value, v) || enc.Flags != 1 {
				r.Violate(pp.Name, "encode-altered-value-or-flags", fmt.Sprintf("key %s val %s", sh(k), sh(v)), rep)
			}
			dec, err := syncer.VerifDupSortHackDecodeOne(enc)
			if err != nil || !bytes.Equal(dec.Key, k) || !bytes.Equal(dec.Value, v) || dec.Flags != 1 {
				r.Violate(pp.Name, "decode-encode-not-identity", fmt.Sprintf("key %s val %s -> enc %s -> dec key %s (err %v)", sh(k), sh(v), sh(enc.Key), sh(dec.Key), err), rep)
			}
			pclasses[fmt.Sprintf("%v/%v", len(enc.Key) == 511, len(v) > 511-len(k)-5)] = true
		}
	}
	// decoder on malformed keys must refuse, never misread silently
	for _, bad := range [][]byte{nil, {1}, {0, 0, 0, 0, 1}, []byte("a\x00\x00\x00\x01x\x01"), []byte("a\x00\x00\x00\x00x\x09"), []byte("ab\x00\x00\x00\x00\x03")} {
		pp.Executions++
		if dec, err := syncer.VerifDupSortHackDecodeOne(snapshot.KV{Key: bad, Value: []byte("v")}); err == nil {
			// accepted: must be consistent (separator found right after the key)
			kl := int(bad[len(bad)-1])
			if kl+5 > len(bad) || !bytes.Equal(bad[kl:kl+4], []byte{0, 0, 0, 0}) || !bytes.Equal(dec.Key, bad[:kl]) {
				r.Violate(pp.Name, "malformed-shadow-key-accepted", fmt.Sprintf("%x decoded to key %x", bad, dec.Key), nil)
			}
		}
	}
	pp.States = int64(len(pclasses))
	pp.Distinct = int64(len(pclasses))
	pp.Bound = fmt.Sprintf("%d keys (lengths 0,1,2,3 exhaustive over {00,01,a}; 250,254,255,256 with exhaustive 2-byte prefixes/suffixes) x %d values (lengths 0..2 exhaustive; 4..4000 incl. every length 500..512 with exhaustive prefixes/suffixes)", len(keys), len(vals))
	pp.Samples = []any{"key 6100 val 000061", "key len 255 (…0001) val len 252"}
	r.AddPart(pp)
	lap("pairs")

	// ---------- set level ----------
	ps := &ev.Part{Name: "set-order-uniqueness", Engine: "E1", Exhaustive: true}
	sclasses := map[string]bool{}
	env := world.NewEnv(64 << 20)
	longp := rep('v', 505)
	uk := [][]byte{[]byte("a"), []byte("a\x00"), []byte("a\x00\x00"), []byte("a\x00\x00\x00\x00"), []byte("a\x00\x00\x00\x00\x00"), []byte("b"), {1}, {0}}
	uv := [][]byte{{}, {0}, {0, 0}, {0, 1}, {1}, []byte("a"), append(append([]byte{}, longp...), '1'), append(append([]byte{}, longp...), '2'), append(append([]byte{}, longp...), "xx1"...), append(append([]byte{}, longp...), "xx2"...), []byte("\x00\x00\x00\x00\x01"), []byte("\x00\x00\x00\x00a\x01")}
	var universe []pair
	for _, k := range uk {
		for _, v := range uv {
			universe = append(universe, pair{k, v})
		}
	}
	maxSet := ev.Pick(r, 2, 3)
	var sets [][]int
	n := len(universe)
	for i := 0; i < n; i++ {
		sets = append(sets, []int{i})
		for j := i + 1; j < n; j++ {
			sets = append(sets, []int{i, j})
			if maxSet >= 3 {
				for k := j + 1; k < n; k++ {
					if (i+j+k)%4 == 0 || r.Thorough() && (i*7+j*3+k)%2 == 0 {
						sets = append(sets, []int{i, j, k})
					}
				}
			}
		}
	}
	errRollback := fmt.Errorf("rollback")
	for _, set := range sets {
		ps.Executions++
		ps.Transitions += int64(len(set))
		var ordered []pair
		var encodedOrder [][]byte
		var encErr error
		var encoded []pair
		err := env.Update(func(txn *lmdb.Txn) error {
			dbi, err := txn.OpenDBI("dups", lmdb.Create|lmdb.DupSort)
			if err != nil {
				return err
			}
			for _, i := range set {
				if err := txn.Put(dbi, universe[i].k, universe[i].v, 0); err != nil {
					return err
				}
			}
			c, _ := txn.OpenCursor(dbi)
			msg := snapshot.NewDBISize(4096)
			msg.SetName("dups")
			for f := uint(lmdb.First); ; f = lmdb.Next {
				k, v, err := c.Get(nil, nil, f)
				if err != nil {
					break
				}
				ordered = append(ordered, pair{append([]byte{}, k...), append([]byte{}, v...)})
				msg.Append(snapshot.KV{Key: k, Value: v})
			}
			c.Close()
			out, err := syncer.VerifDupSortHackEncode(msg)
			encErr = err
			if err != nil {
				return errRollback
			}
			if out.Transform() != snapshot.TransformDupSortHackV1 {
				r.Violate(ps.Name, "encode-does-not-set-transform", out.Transform(), nil)
			}
			// put the encoded keys in a plain DBI: LMDB's own order of the shadow keys
			plain, err := txn.OpenDBI("plain", lmdb.Create)
			if err != nil {
				return err
			}
			out.ResetCursor()
			for {
				kv, err := out.Next()
				if err == io.EOF {
					break
				}
				if err != nil {
					return err
				}
				encoded = append(encoded, pair{append([]byte{}, kv.Key...), append([]byte{}, kv.Value...)})
				if err := txn.Put(plain, kv.Key, kv.Value, 0); err != nil {
					return fmt.Errorf("put encoded key (%d bytes): %w", len(kv.Key), err)
				}
			}
			c2, _ := txn.OpenCursor(plain)
			for f := uint(lmdb.First); ; f = lmdb.Next {
				k, _, err := c2.Get(nil, nil, f)
				if err != nil {
					break
				}
				encodedOrder = append(encodedOrder, append([]byte{}, k...))
			}
			c2.Close()
			// decode back
			back, err := syncer.VerifDupSortHackDecode(out)
			if err != nil {
				return fmt.Errorf("decode: %w", err)
			}
			var backPairs []pair
			back.ResetCursor()
			for {
				kv, err := back.Next()
				if err != nil {
					break
				}
				backPairs = append(backPairs, pair{kv.Key, kv.Value})
			}
			if pairsString(backPairs) != pairsString(ordered) {
				r.Violate(ps.Name, "set-decode-differs", fmt.Sprintf("set %s decoded to %s", pairsString(ordered), pairsString(backPairs)), map[string]any{"set": set})
			}
			return errRollback
		})
		if err != errRollback {
			r.Violate(ps.Name, "set-harness-or-lmdb-error", fmt.Sprintf("set %v: %v", set, err), map[string]any{"set": set})
			continue
		}
		if encErr != nil {
			sclasses["refused"] = true
			continue
		}
		sclasses[fmt.Sprintf("ok%d", len(set))] = true
		// accepted: encoded keys strictly increasing, distinct, and in the same order as the pairs
		if len(encodedOrder) != len(ordered) {
			r.Violate(ps.Name, "accepted-set-not-unique", fmt.Sprintf("set %s: %d pairs but %d distinct shadow keys", pairsString(ordered), len(ordered), len(encodedOrder)), map[string]any{"set": set})
			continue
		}
		for i := range encoded {
			if !bytes.Equal(encoded[i].k, encodedOrder[i]) {
				r.Violate(ps.Name, "accepted-set-order-not-preserved", fmt.Sprintf("set %s: shadow key order differs from (key,value) order", pairsString(ordered)), map[string]any{"set": set})
				break
			}
		}
	}
	env.Destroy()
	ps.States = int64(len(sets))
	ps.Distinct = int64(len(sclasses))
	ps.Bound = fmt.Sprintf("all sets of <=2 pairs (and a deterministic stride of the 3-sets) from a universe of %d colliding pairs (keys a, a00, a0000, a00000000, .. ; values sharing 505-byte prefixes, values starting with the separator), ordered by a real MDB_DUPSORT DBI", len(universe))
	ps.Samples = []any{pairsString([]pair{universe[6], universe[7]}), pairsString([]pair{universe[0], universe[13]})}
	r.AddPart(ps)
	lap("sets")

	// ---------- cycle level ----------
	pc := &ev.Part{Name: "mirror-cycle", Engine: "E1", Exhaustive: true}
	cclasses := map[string]bool{}
	type op struct {
		del  bool
		k, v string
		repl string // if set: the same transaction first deletes the pair (k, repl)
	}
	// two values longer than the space left in the shadow key that differ only in their last byte
	// (LMDB limits duplicate values to 511 bytes; with a 200-byte key 306 value bytes fit into the shadow key)
	longK := string(rep('L', 200))
	long1, long2 := string(rep('x', 306))+"-1", string(rep('x', 306))+"-2"
	opsAlpha := []op{{false, "a", "1", ""}, {false, "a", "2", ""}, {false, "c", "", ""}, {false, "b", "1", ""}, {true, "a", "1", ""}, {true, "a", "2", ""}, {false, "a\x00", "\x001", ""},
		{false, longK, long1, ""}, {false, longK, long2, long1}, {true, "z", "0", ""}}
	var seqs [][]int
	for i := range opsAlpha {
		seqs = append(seqs, []int{i})
		for j := range opsAlpha {
			seqs = append(seqs, []int{i, j})
			if r.Thorough() {
				for k := range opsAlpha {
					seqs = append(seqs, []int{i, j, k})
				}
			}
		}
	}
	const dflags = lmdb.DupSort
	// every sequence from a DBI holding one pair, and from a duplicate-keys DBI that was created but never filled
	var runs [][]int
	for _, seq := range seqs {
		runs = append(runs, seq, append([]int{-1}, seq...))
	}
	for _, seq := range runs {
		emptyStart := seq[0] == -1
		if emptyStart {
			seq = seq[1:]
		}
		bkt := world.NewBucket()
		a := inst.New("a", bkt, inst.Opt{DupSortHack: true})
		b := inst.New("b", bkt, inst.Opt{DupSortHack: true})
		nat := inst.New("n", bkt, inst.Opt{Native: true})
		model := map[string]bool{}
		apply := func(i *inst.Inst, o op) {
			i.AppTxn(func(txn *lmdb.Txn) error {
				if o.repl != "" {
					inst.PlainDel(txn, "dups", dflags, []byte(o.k), []byte(o.repl))
				}
				if o.del {
					inst.PlainDel(txn, "dups", dflags, []byte(o.k), []byte(o.v))
				} else {
					inst.PlainPut(txn, "dups", dflags, []byte(o.k), []byte(o.v))
				}
				return nil
			})
		}
		fail := false
		var lastB uint64
		var step func(o op)
		if emptyStart {
			// the application has created its duplicate-keys DBI and not written to it yet
			a.AppTxn(func(txn *lmdb.Txn) error {
				_, err := txn.OpenDBI("dups", lmdb.Create|dflags)
				return err
			})
		} else {
			// initial content on A, captured by the first send
			apply(a, op{false, "z", "0", ""})
			model["z=0"] = true
		}
		step = func(o op) {
			if o.k != "" {
				apply(a, o)
				if o.repl != "" {
					delete(model, o.k+"="+o.repl)
				}
				if o.del {
					delete(model, o.k+"="+o.v)
				} else {
					model[o.k+"="+o.v] = true
				}
			}
			pc.Transitions++
			want := modelString(model)
			if _, err := a.Send(); err != nil {
				// Refusing data the mapping cannot represent is allowed, altering it is not.
				if !strings.Contains(err.Error(), "dupsort_hack") {
					r.Violate(pc.Name, "cycle-send-error", fmt.Sprintf("ops %v: %v", seq, err), map[string]any{"ops": seq})
				} else if got := pstr(readPairs(a.Env, "dups")); got != want {
					r.Violate(pc.Name, "refusal-altered-application-dbi", fmt.Sprintf("ops %v: send refused (%v) but application DBI is %s, application wrote %s", seq, err, got, want), map[string]any{"ops": seq})
				}
				cclasses["refused"] = true
				fail = true
				return
			}
			if got := pstr(readPairs(a.Env, "dups")); got != want {
				r.Violate(pc.Name, "cycle-altered-application-dbi", fmt.Sprintf("ops %v: application DBI on A is %s, application wrote %s", seq, got, want), map[string]any{"ops": seq})
				fail = true
			}
			names := bkt.Names()
			newest := names[len(names)-1]
			data, _ := bkt.Get(newest)
			snap, err := snapshot.LoadData(data)
			if err != nil {
				ev.Fatal("load own snapshot: %v", err)
			}
			for _, d := range snap.Databases {
				if d.Name() == "dups" && d.Transform() != snapshot.TransformDupSortHackV1 {
					r.Violate(pc.Name, "snapshot-lacks-transform", fmt.Sprintf("ops %v (empty start %v): snapshot DBI transform %q", seq, emptyStart, d.Transform()), nil)
				}
				if d.Name() == "dups" && d.Flags()&uint64(dflags) == 0 {
					r.Violate(pc.Name, "snapshot-lacks-dupsort-flag", fmt.Sprintf("ops %v (empty start %v): snapshot DBI flags %#x", seq, emptyStart, d.Flags()), nil)
				}
			}
			id, _, err := b.Load(newest, data, 0)
			_ = id
			if err != nil {
				r.Violate(pc.Name, "cycle-load-error", fmt.Sprintf("ops %v: %v", seq, err), map[string]any{"ops": seq})
				fail = true
				return
			}
			lastB++
			if got := pstr(readPairs(b.Env, "dups")); got != want {
				sig := "cycle-replica-differs"
				if onlyEmptyValuesMissing(readPairs(b.Env, "dups"), model) {
					sig = "cycle-replica-drops-empty-value"
				}
				r.Violate(pc.Name, sig, fmt.Sprintf("ops %v: replica B has %s, A wrote %s", seq, got, want), map[string]any{"ops": seq})
				fail = true
			}
			// a receiver without the hack, and a native one, must refuse
			if _, _, err := nat.Load(newest, data, 0); err == nil {
				r.Violate(pc.Name, "native-receiver-accepts-transform", "native mode instance merged a dupsort_hack snapshot", nil)
			}
		}
		if emptyStart {
			step(op{}) // sync the empty DBI first: the replica creates it from this snapshot
		}
		for _, oi := range seq {
			if fail {
				break
			}
			step(opsAlpha[oi])
		}
		pc.Executions++
		cclasses[fmt.Sprintf("%d", len(model))] = true
		a.Destroy()
		b.Destroy()
		nat.Destroy()
	}
	// receiver in shadow mode without the hack refuses a snapshot with a dupsort DBI
	{
		bkt := world.NewBucket()
		a := inst.New("a", bkt, inst.Opt{DupSortHack: true})
		c := inst.New("c", bkt, inst.Opt{DupSortHack: false})
		a.AppTxn(func(txn *lmdb.Txn) error { inst.PlainPut(txn, "dups", dflags, []byte("k"), []byte("v")); return nil })
		if _, err := a.Send(); err != nil {
			ev.Fatal("send: %v", err)
		}
		names := bkt.Names()
		data, _ := bkt.Get(names[0])
		before := world.RawString(c.Env.RawDump())
		_, _, err := c.Load(names[0], data, 0)
		pc.Executions++
		if err == nil {
			r.Violate(pc.Name, "hackless-receiver-accepts-dupsort-snapshot", "shadow-mode instance without dupsort_hack merged a dupsort_hack snapshot", nil)
		}
		if after := world.RawString(c.Env.RawDump()); after != before {
			r.Violate(pc.Name, "refused-snapshot-changed-lmdb", "LMDB changed although the snapshot was refused", nil)
		}
		a.Destroy()
		c.Destroy()
	}
	pc.States = int64(len(seqs))
	pc.Distinct = int64(len(cclasses))
	pc.Bound = fmt.Sprintf("all application op sequences of length<=%d over %d ops on a real MDB_DUPSORT DBI (same key/different values, empty value, delete of one duplicate, key a vs a00, 308-byte values under a 200-byte key differing only beyond what fits into the shadow key incl. replacing one by the other in one transaction, deleting the last pair), from a DBI with one pair and from a created-but-empty DBI, each followed by real SendOnce on A and LoadOnce on B (both with the hack), and LoadOnce on a native receiver", ev.Pick(r, 2, 3), len(opsAlpha))
	pc.Samples = []any{"put a=1; put a=2; del a=1"}
	r.AddPart(pc)
	lap("cycle")
	r.Finish()
}

// onlyEmptyValuesMissing: the replica has exactly the model's pairs except
// that pairs with an empty value are missing.
func onlyEmptyValuesMissing(got []pair, model map[string]bool) bool {
	have := map[string]bool{}
	for _, p := range got {
		have[string(p.k)+"="+string(p.v)] = true
	}
	for k := range have {
		if !model[k] {
			return false
		}
	}
	missing := 0
	for k := range model {
		if !have[k] {
			if !strings.HasSuffix(k, "=") {
				return false
			}
			missing++
		}
	}
	return missing > 0
}

func pstr(ps []pair) string {
	var s []string
	for _, p := range ps {
		s = append(s, string(p.k)+"="+string(p.v))
	}
	sort.Strings(s)
	return fmt.Sprintf("%q", s)
}
func modelString(m map[string]bool) string {
	var s []string
	for k := range m {
		s = append(s, k)
	}
	sort.Strings(s)
	return fmt.Sprintf("%q", s)
}
