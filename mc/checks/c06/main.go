// C06 — every snapshot is the complete image of one committed LMDB transaction.
// (a) engine E1: enumerated LMDB contents through the real SendOnce, decoded
// blob compared with an independent raw dump. (b) engine E3 (inline): an
// application commits multi-DBI transactions at every cursor step of the dump;
// the uploaded snapshot must equal the image of exactly the transaction named
// in its metadata.
package main

import (
	"bytes"
	"context"
	"encoding/binary"
	"encoding/json"
	"flag"
	"fmt"
	"github.com/PowerDNS/lightningstream/config"
	"github.com/PowerDNS/lightningstream/syncer"
	"github.com/PowerDNS/lightningstream/syncer/events"
	"github.com/PowerDNS/lightningstream/syncer/hooks"
	"io"
	"sort"
	"strings"
	"time"

	"github.com/PowerDNS/lightningstream/snapshot"
	"github.com/PowerDNS/lightningstream/utils/verifhook"
	"github.com/PowerDNS/lmdb-go/lmdb"

	"verif/lib/ev"
	"verif/lib/explore"
	"verif/lib/inst"
	"verif/lib/par"
	"verif/lib/world"
	"verif/lib/xrun"
)

type ent struct {
	key   []byte
	val   []byte
	ts    uint64
	flags byte
	ext   int
}

func (e ent) raw() []byte { return world.MakeHdr(e.ts, 9, e.flags, e.ext, e.val) }

// image of a snapshot or of the LMDB, canonical text
type image struct {
	dbis []string
}

func dbiLine(name string, flags uint64, transform string, entries []string) string {
	return fmt.Sprintf("[%s flags=%#x transform=%q]\n  %s", name, flags, transform, strings.Join(entries, "\n  "))
}

func short(b []byte) string {
	if len(b) > 40 {
		return fmt.Sprintf("%x..%x(len %d)", b[:8], b[len(b)-8:], len(b))
	}
	return fmt.Sprintf("%x", b)
}

func decodeSnap(data []byte) (string, *snapshot.Snapshot, error) {
	s, err := snapshot.LoadData(data)
	if err != nil {
		return "", nil, err
	}
	var lines []string
	for _, d := range s.Databases {
		var es []string
		d.ResetCursor()
		for {
			kv, err := d.Next()
			if err == io.EOF {
				break
			}
			if err != nil {
				return "", nil, err
			}
			es = append(es, fmt.Sprintf("%s = %s @%d f%d", short(kv.Key), short(kv.Value), kv.TimestampNano, kv.Flags))
		}
		lines = append(lines, dbiLine(d.Name(), d.Flags(), d.Transform(), es))
	}
	return strings.Join(lines, "\n"), s, nil
}

// expectedImage: independent reading of the LMDB (raw dump + own header reader).
func expectedImage(dump []world.RawDBI, native bool) (string, error) {
	flagsOf := map[string]uint{}
	for _, d := range dump {
		flagsOf[d.Name] = d.Flags
	}
	var lines []string
	for _, d := range dump {
		if strings.HasPrefix(d.Name, world.PrivatePrefix) {
			continue
		}
		src := d
		if !native {
			found := false
			for _, sd := range dump {
				if sd.Name == world.ShadowPrefix+d.Name {
					src = sd
					found = true
				}
			}
			if !found {
				return "", fmt.Errorf("no shadow DBI for %s", d.Name)
			}
		}
		var es []string
		for _, e := range src.Entries {
			h, app, err := world.ReadHdr(e.Val)
			if err != nil {
				return "", err
			}
			es = append(es, fmt.Sprintf("%s = %s @%d f%d", short(e.Key), short(app), h.TS, h.Flags&1))
		}
		lines = append(lines, dbiLine(d.Name, uint64(flagsOf[d.Name]), "", es))
	}
	return strings.Join(lines, "\n"), nil
}

var clock uint64 = 1_700_000_000_000_000_000

func install() {
	verifhook.SetSkip(func(string) bool { return true })
	verifhook.SetNow(func(string, time.Time) time.Time { clock += 1_000_000; return time.Unix(0, int64(clock)) })
}

func u32(v uint32) []byte { b := make([]byte, 4); binary.LittleEndian.PutUint32(b, v); return b }

// ---------- part (b) ----------
type bcfg struct {
	Native bool `json:"native"`
}

func runB(param json.RawMessage, ctx *explore.Ctx, viols *[]xrun.Viol) string {
	var c bcfg
	_ = json.Unmarshal(param, &c)
	add := func(sig, msg string) {
		for _, v := range *viols {
			if v.Sig == sig {
				return
			}
		}
		*viols = append(*viols, xrun.Viol{Sig: sig, Msg: msg})
	}
	install()
	bkt := world.NewBucket()
	a := inst.New("a", bkt, inst.Opt{Native: c.Native})
	defer a.Destroy()
	gen := 0
	genBeforeTxn := 0
	images := map[int64]string{} // LMDB transaction id -> expected snapshot image
	commit := func() {
		gen++
		g := gen
		done := make(chan struct{})
		go func() { // own goroutine: the dump's transaction is open on the caller's thread
			defer close(done)
			a.AppTxn(func(txn *lmdb.Txn) error {
				for _, d := range []string{"d1", "d2", "d3"} {
					for _, k := range []string{"k1", "k2", "k3"} {
						v := []byte(fmt.Sprintf("gen%d", g))
						if c.Native {
							inst.NativePut(txn, d, []byte(k), uint64(1000+g), false, v)
						} else {
							inst.PlainPut(txn, d, 0, []byte(k), v)
						}
					}
				}
				// every transaction also creates a DBI of its own
				nd := fmt.Sprintf("new%d", g)
				if c.Native {
					inst.NativePut(txn, nd, []byte("nk"), uint64(1000+g), false, []byte("nv"))
				} else {
					inst.PlainPut(txn, nd, 0, []byte("nk"), []byte("nv"))
				}
				// a key that exists only in some generations
				k := []byte(fmt.Sprintf("only%d", g%2))
				if c.Native {
					inst.NativePut(txn, "d2", k, uint64(1000+g), g%3 == 0, []byte("x"))
				} else {
					inst.PlainPut(txn, "d2", 0, k, []byte("x"))
					inst.PlainDel(txn, "d2", 0, []byte(fmt.Sprintf("only%d", (g+1)%2)), nil)
				}
				return nil
			})
		}()
		<-done
		if c.Native {
			img, err := expectedImage(a.Env.RawDump(), true)
			if err != nil {
				panic(err)
			}
			images[a.Env.LastTxnID()] = img
		}
	}
	commit()
	if !c.Native {
		// steady state: mirrored once, and once more with nothing to capture (that write transaction is empty: LMDB
		// does not record it and hands its id to the next committer)
		for n := 0; n < 2; n++ {
			if _, err := a.Send(); err != nil {
				panic(err)
			}
		}
		// ... then the syncer process is restarted on the same LMDB (a new Syncer object) and makes its first
		// snapshot, again with nothing to capture
		a = inst.New("a", bkt, inst.Opt{Native: false, Env: a.Env})
		if _, err := a.Send(); err != nil {
			panic(err)
		}
	}
	// a second database synced by the same process (one Syncer per configured LMDB): its dump may run
	// between the dump and the upload of the first
	z := inst.New("z", world.NewBucket(), inst.Opt{Native: c.Native})
	defer z.Destroy()
	z.AppTxn(func(txn *lmdb.Txn) error {
		if c.Native {
			inst.NativePut(txn, "zd", []byte("zk"), 5, false, []byte("zv"))
		} else {
			inst.PlainPut(txn, "zd", 0, []byte("zk"), []byte("zv"))
		}
		return nil
	})
	commits := 0
	others := 0
	inOther := false
	sctx, cancelSend := context.WithCancel(context.Background())
	defer cancelSend()
	cancelled := false
	genAtTxnStart := -1     // shadow mode: generation committed when the dump (write) transaction starts
	bkt.IgnoreCancel = true // a backend that does not look at the context: whatever SendOnce hands it gets stored
	verifhook.SetYield(func(point, name string) {
		if inOther {
			return
		}
		if !cancelled && (point == "readdbi.entry" || point == "send.afterTxn" || point == "send.beforeStore") && commits == 0 && others == 0 {
			// shutdown while the snapshot is being made
			if ctx.Choose([]explore.Option{{Label: "continue@" + point + ":" + name}, {Label: "cancel@" + point + ":" + name, Cost: 1}}) == 1 {
				cancelled = true
				cancelSend()
			}
		}
		if point == "send.afterTxn" && genAtTxnStart < 0 {
			genAtTxnStart = genBeforeTxn
		}
		if point == "send.beforeStore" && others == 0 {
			if ctx.Choose([]explore.Option{{Label: "continue@" + point}, {Label: "other-database-dumps@" + point, Cost: 1}}) == 1 {
				others++
				inOther = true
				_, err := z.Send()
				inOther = false
				if err != nil {
					add("send-error-other-database", err.Error())
				}
			}
		}
		switch point {
		case "send.beforeTxn", "send.afterTxn", "readdbi.entry", "send.beforeStore":
		default:
			return
		}
		if !c.Native && point == "readdbi.entry" {
			return // shadow mode dumps inside its own write transaction
		}
		if commits >= 3 {
			return
		}
		if ctx.Choose([]explore.Option{{Label: "continue@" + point + ":" + name}, {Label: "app-commit@" + point + ":" + name, Cost: 1}}) == 1 {
			commits++
			commit()
		}
		if point == "send.beforeTxn" {
			genBeforeTxn = gen
		}
	})
	nBefore := len(bkt.Names())
	id, err := a.SendCtx(sctx)
	verifhook.SetYield(nil)
	if cancelled {
		// a cancelled SendOnce may fail or may still complete; what it must not do is upload something that is not
		// a complete image
		if err != nil && len(bkt.Names()) == nBefore {
			return "cancelled-nothing-uploaded"
		}
		if err != nil {
			add("cancelled-send-uploaded-and-failed", fmt.Sprintf("SendOnce returned %v but a blob was stored", err))
			return "error"
		}
	} else if err != nil {
		add("send-error", err.Error())
		return "error"
	}
	names := bkt.Names()
	if len(names) != nBefore+1 {
		add("no-snapshot-uploaded", fmt.Sprintf("%d -> %d blobs", nBefore, len(names)))
		return "error"
	}
	data, _ := bkt.Get(names[len(names)-1])
	got, snap, derr := decodeSnap(data)
	if derr != nil {
		add("uploaded-snapshot-undecodable", derr.Error())
		return "error"
	}
	if snap.Meta.LmdbTxnID != int64(id) {
		add("meta-txnid-differs-from-returned", fmt.Sprintf("meta %d, SendOnce returned %d", snap.Meta.LmdbTxnID, id))
	}
	mode := map[bool]string{true: "native", false: "shadow"}[c.Native]
	if c.Native {
		want, ok := images[snap.Meta.LmdbTxnID]
		if !ok {
			add("snapshot-names-unknown-transaction:"+mode, fmt.Sprintf("metadata names LMDB transaction %d, application committed %v", snap.Meta.LmdbTxnID, keysOf(images)))
		} else if want != got {
			sig := "snapshot-is-not-the-image-of-its-transaction:" + mode
			for _, other := range images {
				if other == got {
					sig = "snapshot-is-image-of-another-transaction:" + mode
				}
			}
			add(sig, fmt.Sprintf("snapshot (meta txn %d) differs from the LMDB image of that transaction:\n--- snapshot\n%s\n--- transaction %d\n%s", snap.Meta.LmdbTxnID, got, snap.Meta.LmdbTxnID, want))
		}
	} else {
		// shadow: the dump transaction captures and dumps atomically: the snapshot must be internally consistent
		// (all d1/d2/d3 keys of one generation) and equal the shadow state after that transaction
		gens := map[string]bool{}
		for _, line := range strings.Split(got, "\n") {
			if i := strings.Index(line, " = 67656e"); i >= 0 { // "gen" in hex
				gens[strings.Fields(line[i+3:])[0]] = true
			}
		}
		if want := fmt.Sprintf("67656e3%d", genAtTxnStart); genAtTxnStart > 0 && len(gens) == 1 && !gens[want] {
			add("snapshot-is-image-of-an-older-transaction:"+mode, fmt.Sprintf("the dump transaction started after application transaction %d was committed, but the snapshot holds the values of %v:\n%s", genAtTxnStart, gens, got))
		}
		if len(gens) != 1 {
			add("snapshot-mixes-transactions:"+mode, fmt.Sprintf("values of %d different application transactions in one snapshot:\n%s", len(gens), got))
		} else {
			// ... and complete: the DBI created by that transaction (and by every earlier one) is in it
			for gh := range gens {
				g := int(gh[len(gh)-1] - '0')
				for h := 1; h <= g; h++ {
					if !strings.Contains(got, fmt.Sprintf("[new%d ", h)) {
						add("snapshot-lacks-dbi-of-its-transaction:"+mode, fmt.Sprintf("snapshot has the values of application transaction %d but not the DBI new%d created by transaction %d:\n%s", g, h, h, got))
					}
				}
			}
		}
	}
	return fmt.Sprintf("commits=%d", commits)
}

func keysOf(m map[int64]string) []int64 {
	var out []int64
	for k := range m {
		out = append(out, k)
	}
	sort.Slice(out, func(i, j int) bool { return out[i] < out[j] })
	return out
}

func main() {
	flag.Parse()
	par.ServeIfWorker(map[string]par.Handler{"b": xrun.Handler(runB)})
	if v, ok := ev.ReplayRequested(); ok {
		if strings.HasPrefix(v.Part, "b-") {
			xrun.Replay(v, runB)
		} else {
			fmt.Printf("  the replay artefact names the failing content directly: %v\n", v.Replay)
		}
		return
	}
	r := ev.Start("C06")
	defer r.RecoverMain()
	defer world.Cleanup()
	r.SetBudget(ev.Pick(r, 240*time.Second, 30*time.Minute))
	r.Assume("independent raw dump (own cursor loop, own header reader written from the documentation)", "keys of 1 and 511 bytes; values of 0 B, 1 B, 5 kB (overflow pages) and one 1.5 MB value; 0-2 extension blocks; timestamps {0,1,2^63,2^64-1}")
	install()

	// ---------- part (a) ----------
	pa := &ev.Part{Name: "a-contents", Engine: "E1", Exhaustive: true}
	classes := map[string]bool{}
	big := bytes.Repeat([]byte("B"), 5000)
	alpha := []ent{
		{[]byte("a"), nil, 0, 0, 0},
		{[]byte("b"), []byte("v"), 1, 0, 1},
		{[]byte("c"), big, 1 << 63, 0, 2},
		{[]byte("d"), nil, 1<<64 - 1, 1, 0},
		{[]byte("e"), nil, 5, 3, 1},
		{[]byte("f"), []byte("w"), 6, 2, 0},
		{bytes.Repeat([]byte("k"), 511), []byte("long"), 7, 0, 0},
		{[]byte{0}, []byte{0}, 8, 0x80, 2},
	}
	var subsets [][]int
	n := len(alpha)
	subsets = append(subsets, nil)
	for i := 0; i < n; i++ {
		subsets = append(subsets, []int{i})
		for j := i + 1; j < n; j++ {
			subsets = append(subsets, []int{i, j})
			for k := j + 1; k < n; k++ {
				subsets = append(subsets, []int{i, j, k})
			}
		}
	}
	check := func(a *inst.Inst, bkt *world.Bucket, native bool, label string, prevName *string) {
		pa.Executions++
		pa.Transitions++
		rep := map[string]any{"native": native, "case": label}
		before := len(bkt.Names())
		lastBefore := a.Env.LastTxnID()
		id, err := a.Send()
		if err != nil {
			r.Violate(pa.Name, "send-error", label+": "+err.Error(), rep)
			return
		}
		names := bkt.Names()
		if len(names) != before+1 {
			r.Violate(pa.Name, "no-snapshot-uploaded", label, rep)
			return
		}
		name := names[len(names)-1]
		data, _ := bkt.Get(name)
		got, snap, err := decodeSnap(data)
		if err != nil {
			r.Violate(pa.Name, "uploaded-snapshot-undecodable", label+": "+err.Error(), rep)
			return
		}
		want, err := expectedImage(a.Env.RawDump(), native)
		if err != nil {
			ev.Fatal("expected image: %v", err)
		}
		if got != want {
			sig := "snapshot-differs-from-lmdb"
			switch {
			case strings.Contains(got, "[_sync"):
				sig = "private-dbi-in-snapshot"
			case strings.Count(got, "[") != strings.Count(want, "["):
				sig = "snapshot-dbi-set-differs"
			case flagsDiffer(got, want):
				sig = "snapshot-dbi-flags-differ"
			}
			r.Violate(pa.Name, sig, fmt.Sprintf("%s native=%v:\n--- snapshot\n%s\n--- LMDB\n%s", label, native, got, want), rep)
		}
		if !native {
			// shadow mode: what the snapshot calls live is exactly what the application's DBIs hold (the capture is
			// part of the same transaction as the dump)
			app := world.PlainContent(a.Env.RawDump(), world.PickNative)
			live := map[string]map[string]string{}
			for d := range app {
				live[d] = map[string]string{}
			}
			for _, d := range snap.Databases {
				d.ResetCursor()
				if live[d.Name()] == nil {
					live[d.Name()] = map[string]string{}
				}
				for {
					kv, err := d.Next()
					if err != nil {
						break
					}
					if kv.Flags&1 == 0 {
						live[d.Name()][string(kv.Key)] = string(kv.Value)
					}
				}
			}
			if world.PlainString(app) != world.PlainString(live) {
				r.Violate(pa.Name, "snapshot-live-entries-differ-from-application-dbis", fmt.Sprintf("%s: application DBIs %s, live entries of the snapshot %s", label, world.PlainString(app), world.PlainString(live)), rep)
			}
		}
		ni, perr := snapshot.ParseName(name)
		if perr != nil || ni.SyncerName != inst.DBName || ni.InstanceID != "a" {
			r.Violate(pa.Name, "snapshot-name-wrong", fmt.Sprintf("%s: %q (%v)", label, name, perr), rep)
		} else {
			if snap.Meta.DatabaseName != inst.DBName || snap.Meta.InstanceID != "a" || uint64(ni.Timestamp.UnixNano()) != snap.Meta.TimestampNano {
				r.Violate(pa.Name, "snapshot-meta-inconsistent-with-name", fmt.Sprintf("%s: name %q meta %+v", label, name, snap.Meta), rep)
			}
		}
		if native && (snap.Meta.LmdbTxnID != lastBefore || int64(id) != lastBefore) {
			r.Violate(pa.Name, "native-snapshot-txnid-wrong", fmt.Sprintf("%s: meta txn %d, returned %d, last committed %d", label, snap.Meta.LmdbTxnID, id, lastBefore), rep)
		}
		if *prevName != "" && !(*prevName < name) {
			r.Violate(pa.Name, "snapshot-names-not-increasing", fmt.Sprintf("%q then %q", *prevName, name), rep)
		}
		*prevName = name
		classes[fmt.Sprintf("%v/%d", native, strings.Count(want, "\n"))] = true
	}
	for _, native := range []bool{true, false} {
		for si, sub := range subsets {
			if !r.Thorough() && len(sub) == 3 && si%3 != 0 {
				continue
			}
			for variant := 0; variant < 4; variant++ {
				if !r.Thorough() && len(sub) >= 2 && variant != si%4 {
					continue
				}
				bkt := world.NewBucket()
				// the tomb sweeper is enabled (retention 1 day): markers of any age are still part of the image
				a := inst.New("a", bkt, inst.Opt{Native: native, Sweeper: &config.Sweeper{Enabled: true, RetentionDays: 1, Interval: time.Hour, FirstInterval: time.Hour, LockDuration: time.Second, ReleaseDuration: time.Second}})
				a.AppTxn(func(txn *lmdb.Txn) error {
					dbi, err := txn.OpenDBI("d", lmdb.Create)
					if err != nil {
						return err
					}
					for _, i := range sub {
						e := alpha[i]
						if native {
							must(txn.Put(dbi, e.key, e.raw(), 0))
						} else {
							must(txn.Put(dbi, e.key, e.val, 0)) // incl. empty values
						}
					}
					if variant&1 != 0 {
						// an empty DBI with non-default flags, and a flagged DBI with one entry
						_, err := txn.OpenDBI("empty", lmdb.Create|lmdb.ReverseKey)
						must(err)
						fl := uint(lmdb.ReverseKey)
						key := []byte("rk")
						if !native {
							fl = 0x08 // MDB_INTEGERKEY
							key = u32(0)
						}
						d2, err := txn.OpenDBI("flagged", lmdb.Create|fl)
						must(err)
						if native {
							must(txn.Put(d2, key, world.MakeHdr(3, 1, 0, 0, []byte("r")), 0))
						} else {
							must(txn.Put(d2, key, []byte("r"), 0))
							must(txn.Put(d2, u32(1<<31+1), []byte("r2"), 0))
						}
					}
					if variant&2 != 0 {
						// private bookkeeping DBIs (e.g. left over from shadow mode) with perfectly valid content
						for _, pn := range []string{"_sync_meta", world.ShadowPrefix + "zz"} {
							pd, err := txn.OpenDBI(pn, lmdb.Create)
							must(err)
							must(txn.Put(pd, []byte("pk"), world.MakeHdr(4, 1, 0, 0, []byte("private")), 0))
						}
					}
					return nil
				})
				prev := ""
				label := fmt.Sprintf("entries=%v variant=%d", sub, variant)
				check(a, bkt, native, label, &prev)
				// a second snapshot after a change: later name, still the full image
				a.AppTxn(func(txn *lmdb.Txn) error {
					if native {
						inst.NativePut(txn, "d", []byte("late"), clock, false, []byte("2nd"))
					} else {
						inst.PlainPut(txn, "d", 0, []byte("late"), []byte("2nd"))
						if len(sub) > 0 {
							inst.PlainDel(txn, "d", 0, alpha[sub[0]].key, nil)
						}
					}
					if variant&1 != 0 {
						// the application drops a DBI and creates it again with other flags
						old, err := txn.OpenDBI("empty", 0)
						must(err)
						must(txn.Drop(old, true))
						nd, err := txn.OpenDBI("empty", lmdb.Create)
						must(err)
						if native {
							must(txn.Put(nd, []byte("again"), world.MakeHdr(clock, 1, 0, 0, []byte("v")), 0))
						} else {
							must(txn.Put(nd, []byte("again"), []byte("v"), 0))
						}
					}
					return nil
				})
				check(a, bkt, native, label+"+second", &prev)
				a.Destroy()
			}
		}
		// one value of 1.5 MB
		{
			bkt := world.NewBucket()
			a := inst.New("a", bkt, inst.Opt{Native: native, MapSize: 64 << 20})
			huge := bytes.Repeat([]byte("H"), 1500000)
			a.AppTxn(func(txn *lmdb.Txn) error {
				if native {
					inst.NativePut(txn, "d", []byte("huge"), 9, false, huge)
				} else {
					inst.PlainPut(txn, "d", 0, []byte("huge"), huge)
				}
				return nil
			})
			prev := ""
			check(a, bkt, native, "1.5MB value", &prev)
			a.Destroy()
		}
	}
	pa.States = int64(len(classes))
	pa.Distinct = int64(len(classes))
	pa.Bound = fmt.Sprintf("native and shadow x %d entry subsets (all subsets of size<=3 of 8 boundary entries; quick: every third 3-subset) x variants {plain, +empty flagged DBI and flagged DBI, +private _sync DBIs, both}, each followed by a second snapshot after a change; one 1.5 MB value", len(subsets))
	pa.Samples = []any{"entries=[2 4 6] variant=3 native: key c=5kB value with 2 extension blocks @2^63; key e deleted|unsynced with 1 extension block; 511-byte key"}
	r.AddPart(pa)

	// ---------- part (c): the stored name is the name of the final snapshot info ----------
	{
		pcn := &ev.Part{Name: "c-name-with-extension-hooks", Engine: "E1", Exhaustive: true, Bound: "native and shadow x UpdateSnapshotInfo hook {absent, adds one extra name item, adds two}; the stored blob name, the UpdateStored hook and the metadata must agree"}
		for _, native := range []bool{true, false} {
			for nx := 0; nx <= 2; nx++ {
				bkt := world.NewBucket()
				var announced []snapshot.NameInfo
				h := &hooks.Hooks{UpdateStored: func(info events.UpdateInfo) error { announced = append(announced, info.NameInfo); return nil }}
				if nx > 0 {
					h.UpdateSnapshotInfo = func(si hooks.SnapshotInfo) error {
						for i := 0; i < nx; i++ {
							si.NameInfo.Extra = append(si.NameInfo.Extra, snapshot.NameExtraItem(fmt.Sprintf("X%d", i)))
						}
						return nil
					}
				}
				a := inst.New("a", bkt, inst.Opt{Native: native, SyncerOpt: &syncer.Options{Hooks: h}})
				a.AppTxn(func(txn *lmdb.Txn) error {
					if native {
						inst.NativePut(txn, "d", []byte("k"), 5, false, []byte("v"))
					} else {
						inst.PlainPut(txn, "d", 0, []byte("k"), []byte("v"))
					}
					return nil
				})
				_, err := a.Send()
				pcn.Executions++
				pcn.Transitions++
				names := bkt.Names()
				what := fmt.Sprintf("native=%v extra items=%d", native, nx)
				switch {
				case err != nil || len(names) != 1 || len(announced) != 1:
					r.Violate(pcn.Name, "send-with-hooks-failed", fmt.Sprintf("%s: err=%v blobs=%v announced=%d", what, err, names, len(announced)), nil)
				default:
					ni, perr := snapshot.ParseName(names[0])
					if perr != nil || len(ni.Extra) != nx || names[0] != announced[0].BuildName() {
						r.Violate(pcn.Name, "stored-name-differs-from-announced-snapshot-info", fmt.Sprintf("%s: stored as %q (parse err %v, extra %v), UpdateStored announced %q", what, names[0], perr, ni.Extra, announced[0].BuildName()), nil)
					}
					data, _ := bkt.Get(names[0])
					if _, snap, derr := decodeSnap(data); derr != nil || snap.Meta.InstanceID != ni.InstanceID || snap.Meta.DatabaseName != ni.SyncerName || snap.Meta.TimestampNano != uint64(ni.Timestamp.UnixNano()) {
						r.Violate(pcn.Name, "name-and-metadata-disagree", fmt.Sprintf("%s: name %q, decode err %v", what, names[0], derr), nil)
					}
				}
				a.Destroy()
			}
		}
		pcn.States, pcn.Distinct = 6, 6
		r.AddPart(pcn)
	}

	// ---------- part (b) ----------
	for _, native := range []bool{true, false} {
		name := map[bool]string{true: "b-concurrent-commits-native", false: "b-concurrent-commits-shadow"}[native]
		if r.Expired() {
			r.AddPart(&ev.Part{Name: name, Engine: "E3", Exhaustive: false, Bound: "not started: time budget used up"})
			continue
		}
		xrun.Explore(r, name, xrun.Opts{Kind: "b", Bound: ev.Pick(r, 2, 3), Budget: 300, Param: bcfg{Native: native}})
	}
	r.Finish()
}

func flagsDiffer(a, b string) bool {
	fa := func(s string) []string {
		var out []string
		for _, l := range strings.Split(s, "\n") {
			if strings.HasPrefix(l, "[") {
				out = append(out, l)
			}
		}
		return out
	}
	x, y := fa(a), fa(b)
	if len(x) != len(y) {
		return false
	}
	for i := range x {
		if x[i] != y[i] {
			return true
		}
	}
	return false
}

func must(err error) {
	if err != nil {
		panic(err)
	}
}
