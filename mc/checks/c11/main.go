// C11 — shadow mode mirrors application data faithfully in both directions.
// Engine E2 (single instance): BFS over application change sets, real SendOnce /
// LoadOnce of scripted remote snapshots / direct mirror passes, compared after
// every step with a map-based reference model of the mirror.
package main

import (
	"context"
	"encoding/binary"
	"encoding/json"
	"flag"
	"fmt"
	"sort"
	"strings"
	"time"

	"github.com/PowerDNS/lightningstream/lmdbenv/header"
	"github.com/PowerDNS/lightningstream/snapshot"
	"github.com/PowerDNS/lightningstream/utils/verifhook"
	"github.com/PowerDNS/lmdb-go/lmdb"

	"verif/lib/ev"
	"verif/lib/explore"
	"verif/lib/fleet"
	"verif/lib/inst"
	"verif/lib/loopworld"
	"verif/lib/par"
	"verif/lib/statemc"
	"verif/lib/world"
	"verif/lib/xrun"
)

type cfg struct {
	IntKey  bool     `json:"intkey"`
	Keys    []string `json:"keys"` // hex for integer keys
	Vals    []string `json:"vals"`
	NewDBI  bool     `json:"newdbi"`
	Remotes bool     `json:"remotes"`
	Direct  bool     `json:"direct"` // event M: mainToShadow+shadowToMain in one caller-owned txn
}

const base = uint64(1_000_000_000_000_000_000)
const step = uint64(1_000_000_000)

type ver = world.Ver

// model is the map-based reference of the mirror. With defect=true it
// reproduces the known empty-value behaviour of the implementation (capture
// treats "marker + empty application value" as unchanged; projection drops
// live entries with an empty value), which is used only to key the known finding.
type model struct {
	defect bool
	shadow map[string]map[string]ver    // dbi -> key -> version
	app    map[string]map[string]string // dbi -> key -> value
}

func newModel(defect bool) *model {
	return &model{defect: defect, shadow: map[string]map[string]ver{}, app: map[string]map[string]string{}}
}

type sim struct {
	c     cfg
	b     *world.Bucket
	i     *inst.Inst
	clock uint64
	last  header.TxnID
	*model
	bad   *model
	flags map[string]uint
}

func (s *sim) dflags(d string) uint {
	if s.c.IntKey && d == "d" {
		return 0x08
	}
	return 0
}

func key(c cfg, k string) []byte {
	if !c.IntKey {
		return []byte(k)
	}
	var v uint64
	fmt.Sscanf(k, "%d", &v)
	if strings.HasPrefix(k, "q") { // 8-byte key
		fmt.Sscanf(k[1:], "%d", &v)
		b := make([]byte, 8)
		binary.LittleEndian.PutUint64(b, v)
		return b
	}
	b := make([]byte, 4)
	binary.LittleEndian.PutUint32(b, uint32(v))
	return b
}

func newSim(c cfg) *sim {
	s := &sim{c: c, b: world.NewBucket(), clock: base, model: newModel(false), bad: newModel(true), flags: map[string]uint{}}
	s.i = inst.New("me", s.b, inst.Opt{})
	verifhook.SetNow(func(site string, t time.Time) time.Time { return time.Unix(0, int64(s.clock)) })
	verifhook.SetSkip(func(string) bool { return true })
	return s
}

func (s *sim) close() { s.i.Destroy() }

// remote snapshot menu, relative to the current clock
type rent struct {
	dbi, key string
	newer    bool
	del      bool
	val      string
}

var remoteMenu = [][]rent{
	{{"d", "K0", true, false, "z"}},
	{{"d", "K0", true, true, ""}},
	{{"d", "K0", false, false, "z"}},
	{{"d", "K0", false, true, ""}},
	{{"d", "K1", true, false, "z"}, {"d", "K0", false, false, "old"}},
	{{"f", "rk", true, false, "rv"}},
	{{"d", "KX", true, false, "z"}},
	{{"d", "KX", true, true, ""}},
	// three keys in one DBI (for integer keys: 1, 256 and 77 are in integer order but not in byte order)
	{{"d", "K1", true, false, "z1"}, {"d", "K2", true, false, "z2"}, {"d", "KX", true, false, "zx"}},
	// deletion markers that still carry a value (a peer with another schema may send them): the value means nothing
	{{"d", "K0", true, true, "zombie"}},
	{{"d", "KX", true, true, "zombie"}},
}

func (s *sim) enabled() []string {
	var evs []string
	for ki := range s.c.Keys {
		for vi := range s.c.Vals {
			evs = append(evs, fmt.Sprintf("P%d:%d", ki, vi))
		}
		if _, ok := s.app["d"][string(key(s.c, s.c.Keys[ki]))]; ok {
			evs = append(evs, fmt.Sprintf("D%d", ki))
		}
	}
	if s.c.NewDBI && s.app["e"] == nil {
		evs = append(evs, "N")
	}
	if s.i.Env.LastTxnID() > 0 {
		evs = append(evs, "S")
		if s.c.Direct {
			evs = append(evs, "M")
		}
	}
	if s.c.Remotes {
		for ri := range remoteMenu {
			evs = append(evs, fmt.Sprintf("L%d", ri))
		}
		// a merge whose write transaction has to wait for an application transaction that is just committing
		evs = append(evs, "X0", "X3")
		// a snapshot this build cannot merge completely (second DBI with an unknown transform): all or nothing
		evs = append(evs, "U")
	}
	return evs
}

// model of a capture at time t
func (s *model) capture(t uint64) {
	for d, m := range s.app {
		if s.shadow[d] == nil {
			s.shadow[d] = map[string]ver{}
		}
		for k, v := range m {
			if cur, ok := s.shadow[d][k]; ok && !cur.Deleted && cur.Val == v {
				continue
			}
			if cur, ok := s.shadow[d][k]; ok && s.defect && cur.Deleted && v == "" {
				continue
			}
			s.shadow[d][k] = ver{TS: t, Val: v}
		}
		for k, cur := range s.shadow[d] {
			if _, ok := m[k]; !ok && !cur.Deleted {
				s.shadow[d][k] = ver{TS: t, Deleted: true}
			}
		}
	}
}

func (s *model) project() {
	for d, m := range s.shadow {
		if s.app[d] == nil {
			s.app[d] = map[string]string{}
		}
		for k := range s.app[d] {
			delete(s.app[d], k)
		}
		for k, v := range m {
			if !v.Deleted && !(s.defect && v.Val == "") {
				s.app[d][k] = v.Val
			}
		}
	}
}

func (s *model) put(d, k, v string) {
	if s.app[d] == nil {
		s.app[d] = map[string]string{}
	}
	s.app[d][k] = v
}

func (s *model) del(d, k string) { delete(s.app[d], k) }

func (s *model) merge(d, k string, v ver) {
	if s.shadow[d] == nil {
		s.shadow[d] = map[string]ver{}
	}
	cur, ok := s.shadow[d][k]
	if !ok || v.TS > cur.TS {
		s.shadow[d][k] = v
	}
}

func (s *sim) both(f func(m *model)) { f(s.model); f(s.bad) }

func (s *sim) resolveKey(name string) (string, bool) {
	switch name {
	case "K0":
		return string(key(s.c, s.c.Keys[0])), true
	case "K1":
		if len(s.c.Keys) > 1 {
			return string(key(s.c, s.c.Keys[1])), true
		}
		return "", false
	case "K2":
		if len(s.c.Keys) > 2 {
			return string(key(s.c, s.c.Keys[2])), true
		}
		return "", false
	case "KX":
		if s.c.IntKey {
			return string(key(s.c, "77")), true
		}
		return "zz", true
	}
	return name, true
}

type viol = statemc.Viol

func (s *sim) apply(e string) (viols []viol, stop bool) {
	switch e[0] {
	case 'P', 'D':
		var ki, vi int
		if e[0] == 'P' {
			fmt.Sscanf(e, "P%d:%d", &ki, &vi)
		} else {
			fmt.Sscanf(e, "D%d", &ki)
		}
		k := key(s.c, s.c.Keys[ki])
		s.i.AppTxn(func(txn *lmdb.Txn) error {
			if e[0] == 'P' {
				inst.PlainPut(txn, "d", s.dflags("d"), k, []byte(s.c.Vals[vi]))
			} else {
				inst.PlainDel(txn, "d", s.dflags("d"), k, nil)
			}
			return nil
		})
		s.flags["d"] = s.dflags("d")
		if e[0] == 'P' {
			s.both(func(m *model) { m.put("d", string(k), s.c.Vals[vi]) })
		} else {
			s.both(func(m *model) { m.del("d", string(k)) })
		}
		return nil, false
	case 'N':
		s.i.AppTxn(func(txn *lmdb.Txn) error {
			inst.PlainPut(txn, "e", 0, []byte("nk"), []byte("nv"))
			return nil
		})
		s.both(func(m *model) { m.put("e", "nk", "nv") })
		return nil, false
	case 'S':
		s.clock += step
		id, err := s.i.Send()
		if err != nil {
			return []viol{{Sig: "send-error", Msg: err.Error()}}, true
		}
		s.last = id
		s.both(func(m *model) { m.capture(s.clock) })
	case 'M':
		s.clock += step
		err := s.i.Env.Update(func(txn *lmdb.Txn) error {
			if err := s.i.S.VerifMainToShadow(context.Background(), txn, header.Timestamp(s.clock)); err != nil {
				return err
			}
			return s.i.S.VerifShadowToMain(context.Background(), txn)
		})
		if err != nil {
			return []viol{{Sig: "direct-mirror-error", Msg: err.Error()}}, true
		}
		s.last = header.TxnID(s.i.Env.LastTxnID())
		s.both(func(m *model) { m.capture(s.clock); m.project() })
	case 'U':
		s.clock += step
		msg := &snapshot.Snapshot{FormatVersion: 3, CompatVersion: 1}
		msg.Meta.InstanceID = "remote"
		msg.Meta.DatabaseName = inst.DBName
		msg.Meta.TimestampNano = s.clock
		d1 := snapshot.NewDBISize(256)
		d1.SetName("d")
		d1.SetFlags(uint64(s.dflags("d")))
		d1.Append(snapshot.KV{Key: key(s.c, s.c.Keys[0]), Value: []byte("from-unsupported-snapshot"), TimestampNano: s.clock + step/2})
		d2 := snapshot.NewDBISize(256)
		d2.SetName("u")
		d2.SetTransform("transform-of-a-future-version")
		d2.Append(snapshot.KV{Key: []byte("uk"), Value: []byte("uv"), TimestampNano: s.clock + step/2})
		msg.Databases = append(msg.Databases, d1, d2)
		data, _, err := snapshot.DumpData(msg)
		if err != nil {
			panic(err)
		}
		last0 := s.i.Env.LastTxnID()
		if _, _, err := s.i.Load(snapshot.Name(inst.DBName, "remote", "GX", time.Unix(0, int64(s.clock))), data, s.last); err == nil {
			viols = append(viols, viol{Sig: "unsupported-snapshot-reported-as-merged", Msg: "LoadOnce returned no error for a snapshot whose second DBI has an unknown transform"})
		}
		if now := s.i.Env.LastTxnID(); now != last0 {
			viols = append(viols, viol{Sig: "refused-snapshot-committed-a-transaction", Msg: fmt.Sprintf("LastTxnID %d -> %d", last0, now)})
		}
		// the models stay as they are: nothing of the snapshot may be visible
	case 'L', 'X':
		var ri int
		fmt.Sscanf(e[1:], "%d", &ri)
		straddle := e[0] == 'X'
		s.clock += step
		msg := &snapshot.Snapshot{FormatVersion: 3, CompatVersion: 1}
		msg.Meta.InstanceID = "remote"
		msg.Meta.DatabaseName = inst.DBName
		msg.Meta.TimestampNano = s.clock
		byDBI := map[string][]rent{}
		var order []string
		for _, re := range remoteMenu[ri] {
			if _, ok := s.resolveKey(re.key); !ok {
				continue
			}
			if byDBI[re.dbi] == nil {
				order = append(order, re.dbi)
			}
			byDBI[re.dbi] = append(byDBI[re.dbi], re)
		}
		dirty := header.TxnID(s.i.Env.LastTxnID()) != s.last || straddle
		type applied struct {
			d, k string
			v    ver
		}
		var toMerge []applied
		for _, d := range order {
			dm := snapshot.NewDBISize(512)
			dm.SetName(d)
			dm.SetFlags(uint64(s.dflags(d)))
			ents := byDBI[d]
			type kv struct {
				k string
				r rent
			}
			var kvs []kv
			for _, re := range ents {
				k, _ := s.resolveKey(re.key)
				kvs = append(kvs, kv{k, re})
			}
			sort.Slice(kvs, func(i, j int) bool {
				if s.dflags(d) != 0 {
					return leUint([]byte(kvs[i].k)) < leUint([]byte(kvs[j].k))
				}
				return kvs[i].k < kvs[j].k
			})
			for _, x := range kvs {
				ts := uint64(5 + ri) // older than everything local, distinct per remote snapshot (no ties)
				if x.r.newer {
					ts = s.clock + step/2 // newer than anything captured so far, incl. the capture inside this load
				}
				var fl uint32
				if x.r.del {
					fl = 1
				}
				dm.Append(snapshot.KV{Key: []byte(x.k), Value: []byte(x.r.val), TimestampNano: ts, Flags: fl})
				mv := x.r.val
				if x.r.del {
					mv = "" // deleted implies empty value
				}
				toMerge = append(toMerge, applied{d, x.k, ver{TS: ts, Deleted: x.r.del, Val: mv}})
			}
			msg.Databases = append(msg.Databases, dm)
		}
		data, _, err := snapshot.DumpData(msg)
		if err != nil {
			panic(err)
		}
		name := snapshot.Name(inst.DBName, "remote", "GX", time.Unix(0, int64(s.clock)))
		var id header.TxnID
		var changed bool
		if straddle {
			k0 := key(s.c, s.c.Keys[0])
			s.flags["d"] = s.dflags("d")
			last := s.last
			s.i.Env.Straddle(func(txn *lmdb.Txn) {
				inst.PlainPut(txn, "d", s.dflags("d"), k0, []byte("straddled"))
			}, func() {
				id, changed, err = s.i.Load(name, data, last)
			})
			s.both(func(m *model) { m.put("d", string(k0), "straddled") })
		} else {
			id, changed, err = s.i.Load(name, data, s.last)
		}
		if err != nil {
			return []viol{{Sig: "load-error", Msg: err.Error()}}, true
		}
		if changed != dirty {
			viols = append(viols, viol{Sig: "local-change-detection-wrong", Msg: fmt.Sprintf("localChanged=%v but application %s write since the last sync step", changed, map[bool]string{true: "did", false: "did not"}[dirty])})
		}
		if !changed {
			s.last = id
		}
		s.both(func(m *model) {
			if dirty {
				m.capture(s.clock)
			}
			for _, a := range toMerge {
				m.merge(a.d, a.k, a.v)
			}
			m.project()
		})
		for _, a := range toMerge {
			if _, ok := s.flags[a.d]; !ok {
				s.flags[a.d] = s.dflags(a.d)
			}
		}
	}
	// compare with the real LMDB
	dump := s.i.Env.RawDump()
	lc, err := world.HeaderLC(dump, world.PickShadow)
	if err != nil {
		return append(viols, viol{Sig: "shadow-dbi-malformed", Msg: err.Error()}), true
	}
	app := world.PlainContent(dump, world.PickNative)
	wantLC := world.LC{}
	for d, m := range s.shadow {
		wantLC[d] = m
	}
	badLC := world.LC{}
	for d, m := range s.bad.shadow {
		badLC[d] = m
	}
	explainedByKnownDefect := lc.Equal(badLC) && (e[0] == 'S' || world.PlainString(app) == world.PlainString(s.bad.app))
	if !lc.Equal(wantLC) {
		sig := "shadow-differs-from-model"
		if explainedByKnownDefect {
			sig = "shadow-mode-empty-value-defect"
		}
		viols = append(viols, viol{Sig: sig, Msg: fmt.Sprintf("after %s shadow state is %s, mirror model says %s", e, lc, wantLC)})
		stop = true
	}
	if e[0] != 'S' { // SendOnce only captures; it does not project
		if world.PlainString(app) != world.PlainString(s.app) {
			sig := "application-dbi-differs-from-model"
			if explainedByKnownDefect {
				sig = "shadow-mode-empty-value-defect"
			}
			viols = append(viols, viol{Sig: sig, Msg: fmt.Sprintf("after %s application DBIs are %s, mirror model says %s", e, world.PlainString(app), world.PlainString(s.app))})
			stop = true
		}
	} else if world.PlainString(app) != world.PlainString(s.app) {
		viols = append(viols, viol{Sig: "send-changed-application-dbi", Msg: fmt.Sprintf("after %s application DBIs are %s, application wrote %s", e, world.PlainString(app), world.PlainString(s.app))})
		stop = true
	}
	// shadow DBI flags: MDB_INTEGERKEY iff the application DBI has it
	for _, d := range dump {
		if strings.HasPrefix(d.Name, world.ShadowPrefix) {
			want := s.flags[strings.TrimPrefix(d.Name, world.ShadowPrefix)] & 0x08
			if d.Flags&0x08 != want || d.Flags&^0x08 != 0 {
				viols = append(viols, viol{Sig: "shadow-dbi-flags-wrong", Msg: fmt.Sprintf("%s has flags %#x, application DBI flags %#x", d.Name, d.Flags, want)})
			}
			if want != 0 {
				// iteration must be in integer order
				var prev uint64
				for i, en := range d.Entries {
					v := leUint(en.Key)
					if i > 0 && v <= prev {
						viols = append(viols, viol{Sig: "shadow-dbi-not-in-integer-order", Msg: d.Name})
					}
					prev = v
				}
			}
		}
	}
	return viols, stop
}

func leUint(b []byte) uint64 {
	switch len(b) {
	case 4:
		return uint64(binary.LittleEndian.Uint32(b))
	case 8:
		return binary.LittleEndian.Uint64(b)
	}
	return 0
}

func (s *sim) canon() string {
	dump := s.i.Env.RawDump()
	lc, _ := world.HeaderLC(dump, world.PickShadow)
	// rank timestamps
	set := map[uint64]bool{}
	for _, m := range lc {
		for _, v := range m {
			set[v.TS] = true
		}
	}
	var all []uint64
	for t := range set {
		all = append(all, t)
	}
	sort.Slice(all, func(i, j int) bool { return all[i] < all[j] })
	rank := map[uint64]uint64{}
	for i, t := range all {
		rank[t] = uint64(i + 1)
	}
	out := world.LC{}
	for d, m := range lc {
		out[d] = map[string]ver{}
		for k, v := range m {
			v.TS = rank[v.TS]
			out[d][k] = v
		}
	}
	dirty := header.TxnID(s.i.Env.LastTxnID()) != s.last
	return out.String() + "|" + world.PlainString(world.PlainContent(dump, world.PickNative)) + fmt.Sprintf("|%v", dirty)
}

func replay(c cfg, hist []string) (*sim, error) {
	s := newSim(c)
	for _, e := range hist {
		if v, _ := s.apply(e); len(v) > 0 {
			return s, fmt.Errorf("violation while replaying an explored prefix: %v", v)
		}
	}
	return s, nil
}

func expand(hist []string, param json.RawMessage) statemc.Result {
	var c cfg
	_ = json.Unmarshal(param, &c)
	s, err := replay(c, hist)
	if err != nil {
		s.close()
		return statemc.Result{Err: err.Error()}
	}
	evs := s.enabled()
	s.close()
	var res statemc.Result
	for _, e := range evs {
		g, err := replay(c, hist)
		if err != nil {
			g.close()
			return statemc.Result{Err: err.Error()}
		}
		v, stop := g.apply(e)
		res.Succs = append(res.Succs, statemc.Succ{Ev: e, Key: fleet.Hash(g.canon()), Viols: v, Stop: stop || len(v) > 0, Term: fleet.Hash(g.canon())})
		g.close()
	}
	return res
}

func main() {
	flag.Parse()
	par.ServeIfWorker(map[string]par.Handler{"x": statemc.Handler(expand), "loop": xrun.Handler(runLoop)})
	if v, ok := ev.ReplayRequested(); ok {
		if strings.HasPrefix(v.Part, "sync-loop") {
			xrun.Replay(v, runLoop)
			return
		}
		statemc.Replay(v, expand)
		return
	}
	r := ev.Start("C11")
	defer r.RecoverMain()
	defer world.Cleanup()
	r.SetBudget(ev.Pick(r, 400*time.Second, 45*time.Minute))
	r.Assume("steady state: all application changes are made while the syncer glue runs (changes made while it is down are documented to be treated differently)",
		"remote versions are strictly older or strictly newer than local ones (ties are C02's subject), so the model needs no tie-break",
		"a branch is not expanded further after a mismatch with the model")

	d := ev.Pick(r, 0, 1)
	type run struct {
		name  string
		c     cfg
		depth int
	}
	runs := []run{
		{"bytes-keys", cfg{Keys: []string{"a", "b"}, Vals: []string{"x", "y"}, NewDBI: true, Remotes: true, Direct: true}, 4 + d},
		{"bytes-keys-empty-values", cfg{Keys: []string{"a"}, Vals: []string{"", "x"}, Remotes: true, Direct: true}, 4 + d},
		{"integer-keys-4byte", cfg{IntKey: true, Keys: []string{"0", "1", "256"}, Vals: []string{"x"}, Remotes: true, Direct: true}, 4 + d},
		{"integer-keys-8byte", cfg{IntKey: true, Keys: []string{"q0", "q4294967301"}, Vals: []string{"x", "y"}, Remotes: false, Direct: true}, 4 + d},
		{"local-only-deep", cfg{Keys: []string{"a", "b", "c"}, Vals: []string{"x"}, Direct: true}, 6 + d},
	}
	for ri, rn := range runs {
		if r.Expired() {
			r.AddPart(&ev.Part{Name: rn.name, Engine: "E2", Exhaustive: false, Bound: "not started: time budget used up"})
			continue
		}
		restoreBudget := r.SubBudget(r.Remaining() / time.Duration(len(runs)-ri+1)) // +1: the parts after this loop
		st := statemc.Run(r, rn.name, "x", rn.c, rn.depth, 0)
		restoreBudget()
		cj, _ := json.Marshal(rn.c)
		r.AddPart(&ev.Part{Name: rn.name, Engine: "E2", States: st.States, Transitions: st.Transitions, Executions: st.Transitions, Distinct: int64(st.Terminals), Exhaustive: st.Exhaustive,
			Bound:   fmt.Sprintf("BFS depth %d of %d completed (frontier sizes %v); model comparison after every sync step; cfg %s; remote menu: newer/older x live/deleted on an existing key, a new key, a second key plus an older version, a new DBI, a snapshot with an unsupported second DBI", st.Depth, rn.depth, st.PerDepth, cj),
			Samples: st.Samples})
	}
	// the mirror under the real sync loop: application commits at every hook, straddling transactions, remote snapshots
	{
		restore := r.SubBudget(ev.Pick(r, 150*time.Second, 20*time.Minute))
		xrun.Explore(r, "sync-loop-shadow", xrun.Opts{Kind: "loop", Bound: ev.Pick(r, 2, 3), Budget: 30, Recycle: 4,
			Param: loopworld.Cfg{Native: false, Remote2: true, NoopRemote: true, Straddle: true, MaxVisits: 1, AppOps: []string{"put-b", "del-a", "newdbi"}}})
		restore()
	}
	r.Finish()
}

// runLoop: the sync-loop scenario; only the mirror oracle (c11:) is judged here.
func runLoop(param json.RawMessage, ctx *explore.Ctx, viols *[]xrun.Viol) string {
	var cfg loopworld.Cfg
	_ = json.Unmarshal(param, &cfg)
	res := loopworld.Run(cfg, ctx)
	for _, v := range res.Viols {
		if loopworld.Judged(v.Sig, "c11") {
			*viols = append(*viols, xrun.Viol{Sig: v.Sig, Msg: v.Msg})
		}
	}
	return fmt.Sprintf("%s/stores=%d/loads=%d", res.Outcome, res.Stores, res.Loads)
}
