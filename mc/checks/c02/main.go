// C02 — merging is an order-insensitive join that never moves a key backwards.
// Engine E1: all (stored, incoming) pairs, ordered pairs and triples over a
// collision-forcing version alphabet, directly through NativeIterator.Merge
// and through strategy.Update on a real DBI.
package main

import (
	"encoding/binary"
	"flag"
	"fmt"
	"sync"
	"sync/atomic"
	"time"
	"verif/lib/inst"

	"github.com/PowerDNS/lightningstream/lmdbenv/header"
	"github.com/PowerDNS/lightningstream/lmdbenv/strategy"
	"github.com/PowerDNS/lightningstream/snapshot"
	"github.com/PowerDNS/lightningstream/syncer"
	"github.com/PowerDNS/lmdb-go/lmdb"

	"verif/lib/ev"
	"verif/lib/par"
	"verif/lib/world"
)

type stored struct {
	name string
	raw  []byte // nil = absent
}

type inc struct {
	ts    uint64
	val   string
	flags uint32
	dbi   *snapshot.DBI
	dbi3  *snapshot.DBI // the same entry between two neighbour entries that are no-ops for the stored neighbours (part C)
}

func (a inc) String() string { return fmt.Sprintf("in(ts=%d,val=%q,flags=%d)", a.ts, a.val, a.flags) }

type cfg struct {
	fv     uint32
	cutoff uint64
	defTS  uint64
}

func (c cfg) String() string {
	return fmt.Sprintf("fv=%d,cutoff=%d,defTS=%d", c.fv, c.cutoff, c.defTS)
}

// version as the property sees it; ok=false means absent
type ver struct {
	ok  bool
	ts  uint64
	del bool
	val string
}

func (v ver) String() string {
	if !v.ok {
		return "absent"
	}
	if v.del {
		return fmt.Sprintf("DEL@%d", v.ts)
	}
	return fmt.Sprintf("%q@%d", v.val, v.ts)
}

func lcOf(raw []byte) (ver, error) {
	if len(raw) == 0 {
		return ver{}, nil
	}
	h, app, err := world.ReadHdr(raw)
	if err != nil {
		return ver{}, err
	}
	return ver{ok: true, ts: h.TS, del: h.Flags&1 != 0, val: string(app)}, nil
}

func eff(a inc, c cfg) ver {
	ts := a.ts
	if ts == 0 {
		ts = c.defTS
	}
	del := a.flags&1 != 0 || (c.fv < 2 && a.val == "")
	val := a.val
	if del {
		val = ""
	}
	return ver{ok: true, ts: ts, del: del, val: val}
}

func stale(a inc, c cfg) bool {
	e := eff(a, c)
	// the cutoff is applied to the entry's own timestamp field
	return e.del && a.ts < c.cutoff
}

// relOK: may this entry take part in the order-insensitivity relations?
//   - stale markers are by design not join elements (own clause)
//   - ts=0 entries with a default timestamp have capture semantics
//   - a deleted entry carrying a value is not a well-formed version (deleted
//     implies empty value); it is only checked in single merges
func relOK(a inc, c cfg) bool {
	if stale(a, c) {
		return false
	}
	if c.defTS != 0 && a.ts == 0 {
		return false
	}
	if a.flags&1 != 0 && a.val != "" {
		return false
	}
	return true
}

const txnID = 7

func merge(st []byte, a inc, c cfg) ([]byte, error) {
	a.dbi.ResetCursor()
	it, err := syncer.NewNativeIterator(c.fv, 1, a.dbi, header.Timestamp(c.defTS), txnID, header.Timestamp(c.cutoff))
	if err != nil {
		return nil, err
	}
	if _, err := it.Next(); err != nil {
		return nil, err
	}
	out, err := it.Merge(st)
	if err != nil {
		return nil, err
	}
	if len(out) == 0 {
		return nil, nil
	}
	if len(st) > 0 && &out[0] == &st[0] {
		return st, nil
	}
	return append([]byte{}, out...), nil
}

func main() {
	flag.Parse()
	if v, ok := ev.ReplayRequested(); ok {
		fmt.Printf("  this check enumerates inputs; the replay artefact names the failing input directly: %v\n", v.Replay)
		return
	}
	r := ev.Start("C02")
	defer r.RecoverMain()
	defer world.Cleanup()
	r.Assume("versions over ts{0,1,2,2^63,2^64-1} x value{\"\",a,b} x deleted/live, entry flags 0..3, stored values with an extension block / unknown flag bits",
		"deleted entries that carry a value (not well-formed: deleted implies empty) are checked in single merges only, not in the order relations",
		"with a non-zero stale-deletion cutoff, commutativity/associativity are asserted only for tuples without a stale marker (by design not join elements); with a default timestamp only for tuples without ts=0 entries (capture semantics)")

	var sts []stored
	sts = append(sts, stored{"absent", nil})
	for ts := uint64(0); ts <= 2; ts++ {
		sts = append(sts,
			stored{fmt.Sprintf("live''@%d", ts), world.MakeHdr(ts, 3, 0, 0, nil)},
			stored{fmt.Sprintf("live'a'@%d", ts), world.MakeHdr(ts, 3, 0, 0, []byte("a"))},
			stored{fmt.Sprintf("live'b'@%d", ts), world.MakeHdr(ts, 3, 0, 0, []byte("b"))},
			stored{fmt.Sprintf("del@%d", ts), world.MakeHdr(ts, 3, 1, 0, nil)},
		)
	}
	const big1, big2 = uint64(1) << 63, ^uint64(0)
	sts = append(sts,
		stored{"live'a'@2^64-1", world.MakeHdr(big2, 3, 0, 0, []byte("a"))},
		stored{"del@2^63", world.MakeHdr(big1, 3, 1, 0, nil)},
		stored{"live'a'@1+ext", world.MakeHdr(1, 3, 0, 1, []byte("a"))},
		stored{"del@1+flag2", world.MakeHdr(1, 3, 3, 0, nil)},
		stored{"live'a'@1+flag2", world.MakeHdr(1, 3, 2, 0, []byte("a"))},
	)
	var incs []inc
	for _, ts := range []uint64{0, 1, 2, big1, big2} {
		for _, val := range []string{"", "a", "b"} {
			for fl := uint32(0); fl <= 3; fl++ {
				d := snapshot.NewDBI()
				d.Append(snapshot.KV{Key: []byte("k"), Value: []byte(val), TimestampNano: ts, Flags: fl})
				// incoming all-default entry is not written by Append (empty message); keep key non-empty
				incs = append(incs, inc{ts, val, fl, d, nil})
			}
		}
	}
	var cfgsAll []cfg
	for _, fv := range []uint32{3, 2, 1} {
		for _, cut := range []uint64{0, 1, 2, 3} {
			for _, d := range []uint64{0, 2, 3} {
				cfgsAll = append(cfgsAll, cfg{fv, cut, d})
			}
		}
	}
	cfgsTriple := cfgsAll
	if !r.Thorough() {
		cfgsTriple = []cfg{{3, 0, 0}, {3, 2, 0}, {1, 0, 0}, {2, 1, 3}}
	}

	type task struct {
		si int
		c  cfg
	}

	// each inc holds a DBI with a cursor: give every worker its own copies
	mkIncs := func() []inc {
		out := make([]inc, len(incs))
		for i, a := range incs {
			d := snapshot.NewDBI()
			d.Append(snapshot.KV{Key: []byte("k"), Value: []byte(a.val), TimestampNano: a.ts, Flags: a.flags})
			d3 := snapshot.NewDBISize(256)
			d3.Append(snapshot.KV{Key: []byte("j"), Value: []byte("nb"), TimestampNano: 9})
			d3.Append(snapshot.KV{Key: []byte("k"), Value: []byte(a.val), TimestampNano: a.ts, Flags: a.flags})
			d3.Append(snapshot.KV{Key: []byte("l"), Value: []byte("nb"), TimestampNano: 9})
			out[i] = inc{a.ts, a.val, a.flags, d, d3}
		}
		return out
	}
	workers := par.DefaultWorkers()
	wincs := make([][]inc, workers)
	for i := range wincs {
		wincs[i] = mkIncs()
	}

	var nMerge, nSingle, nPair, nTriple atomic.Int64
	var mu sync.Mutex
	classes := map[string]bool{}
	outcomes := map[string]bool{}

	fold := func(in []inc, st []byte, c cfg, idx ...int) (ver, []byte, error) {
		cur := st
		for _, i := range idx {
			out, err := merge(cur, in[i], c)
			if err != nil {
				return ver{}, nil, err
			}
			cur = out
		}
		v, err := lcOf(cur)
		return v, cur, err
	}

	classify := func(x, y ver) string {
		if x.ok && y.ok && x.ts == y.ts && x.val == y.val && x.del != y.del {
			return "tie-deleted-vs-live-empty"
		}
		return "other"
	}

	// ---------- part A: singles + pairs, all configs ----------
	var tasks []task
	for si := range sts {
		for _, c := range cfgsAll {
			tasks = append(tasks, task{si, c})
		}
	}
	par.ForEach(len(tasks), workers, func(w, ti int) {
		t := tasks[ti]
		in := wincs[w]
		s := sts[t.si]
		sv, _ := lcOf(s.raw)
		c := t.c
		localOut := map[string]bool{}
		for ai := range in {
			a := in[ai]
			res, err := merge(s.raw, a, c)
			nMerge.Add(1)
			nSingle.Add(1)
			rep := map[string]any{"cfg": c.String(), "stored": s.name, "a": a.String()}
			if err != nil {
				r.Violate("merge-direct", "merge-error", fmt.Sprintf("%s stored=%s %s: %v", c, s.name, a, err), rep)
				continue
			}
			rv, err := lcOf(res)
			if err != nil {
				r.Violate("merge-direct", "result-header-malformed", fmt.Sprintf("%s stored=%s %s: %v", c, s.name, a, err), rep)
				continue
			}
			ea := eff(a, c)
			if c.defTS != 0 && a.ts == 0 && ea.del {
				continue // no caller produces a deleted entry in capture mode
			}
			localOut[fmt.Sprintf("%v|%v|%v", sv.ok, rv == sv, rv == ea)] = true
			// stale-marker clause
			if !sv.ok && stale(a, c) {
				if rv.ok {
					r.Violate("merge-direct", "stale-marker-created", fmt.Sprintf("%s: stale marker %s created on absent key", c, a), rep)
				}
				continue
			}
			// result is one of {stored, incoming}
			if rv != sv && rv != ea {
				r.Violate("merge-direct", "result-neither-stored-nor-incoming", fmt.Sprintf("%s stored=%s(%v) %s(eff %v) -> %v", c, s.name, sv, a, ea, rv), rep)
			}
			// monotone
			if sv.ok && (!rv.ok || rv.ts < sv.ts) {
				r.Violate("merge-direct", "moved-backwards", fmt.Sprintf("%s stored=%s(%v) %s -> %v", c, s.name, sv, a, rv), rep)
			}
			if sv.ok && rv != sv && ea.ts < sv.ts {
				r.Violate("merge-direct", "older-version-won", fmt.Sprintf("%s stored=%v incoming eff %v -> %v", c, sv, ea, rv), rep)
			}
			// newer incoming must win (otherwise the join is not the LWW maximum)
			capture := a.ts == 0 && c.defTS != 0
			if sv.ok && ea.ts > sv.ts && rv != ea && !(capture && ea.val == sv.val) {
				r.Violate("merge-direct", "newer-version-lost", fmt.Sprintf("%s stored=%v incoming eff %v -> %v", c, sv, ea, rv), rep)
			}
			if !sv.ok && rv != ea {
				r.Violate("merge-direct", "add-mismatch", fmt.Sprintf("%s absent + %s (eff %v) -> %v", c, a, ea, rv), rep)
			}
			// no-touch
			if sv.ok && rv == sv && string(res) != string(s.raw) {
				r.Violate("merge-direct", "stored-bytes-touched", fmt.Sprintf("%s stored=%s %s: version unchanged but bytes differ", c, s.name, a), rep)
			}
			// idempotent
			res2, err := merge(res, a, c)
			nMerge.Add(1)
			if err != nil || string(res2) != string(res) {
				r.Violate("merge-direct", "not-idempotent", fmt.Sprintf("%s stored=%s %s: m(m(s,a),a) != m(s,a) (%v)", c, s.name, a, err), rep)
			}
			// pairs
			for bi := range in {
				b := in[bi]
				if !relOK(a, c) || !relOK(b, c) {
					continue
				}
				if bi < ai {
					continue
				}
				nPair.Add(1)
				nMerge.Add(4)
				x, _, e1 := fold(in, s.raw, c, ai, bi)
				y, _, e2 := fold(in, s.raw, c, bi, ai)
				if e1 != nil || e2 != nil {
					continue
				}
				if x != y {
					cl := classify(x, y)
					r.Violate("merge-direct", "commute-"+cl,
						fmt.Sprintf("%s stored=%s: a=%s b=%s: s+a+b=%v but s+b+a=%v", c, s.name, a, b, x, y),
						map[string]any{"cfg": c.String(), "stored": s.name, "a": a.String(), "b": b.String()})
				}
			}
		}
		mu.Lock()
		for k := range localOut {
			outcomes[k] = true
		}
		classes[fmt.Sprintf("%v/%d/%d/%d", sv.ok, c.fv, c.cutoff, c.defTS)] = true
		mu.Unlock()
	})
	r.AddPart(&ev.Part{Name: "merge-direct-pairs", Engine: "E1", Exhaustive: true,
		States: int64(len(tasks)), Transitions: nMerge.Load(), Executions: nSingle.Load() + nPair.Load(), Distinct: int64(len(outcomes)),
		Bound:   fmt.Sprintf("%d stored x %d incoming (singles) and all unordered incoming pairs in both orders x %d configs (format 1..3, cutoff 0..3, default ts 0,2,3)", len(sts), len(incs), len(cfgsAll)),
		Samples: []any{"fv=3,cutoff=0,defTS=0 stored=absent a=in(ts=1,val=\"\",flags=1) b=in(ts=1,val=\"\",flags=0)", "fv=1,cutoff=2,defTS=3 stored=live'a'@1+ext a=in(ts=0,val=\"b\",flags=2)"}})

	// ---------- part B: triples ----------
	nMerge.Store(0)
	tasks = tasks[:0]
	for si := range sts {
		for _, c := range cfgsTriple {
			tasks = append(tasks, task{si, c})
		}
	}
	perms := [][3]int{{0, 1, 2}, {0, 2, 1}, {1, 0, 2}, {1, 2, 0}, {2, 0, 1}, {2, 1, 0}}
	var tripleOutcomes sync.Map
	par.ForEach(len(tasks), workers, func(w, ti int) {
		t := tasks[ti]
		in := wincs[w]
		s := sts[t.si]
		c := t.c
		for ai := range in {
			if !relOK(in[ai], c) {
				continue
			}
			for bi := ai; bi < len(in); bi++ {
				if !relOK(in[bi], c) {
					continue
				}
				for ci := bi; ci < len(in); ci++ {
					if !relOK(in[ci], c) {
						continue
					}
					idx := [3]int{ai, bi, ci}
					var first ver
					nTriple.Add(1)
					for pi, p := range perms {
						v, _, err := fold(in, s.raw, c, idx[p[0]], idx[p[1]], idx[p[2]])
						nMerge.Add(3)
						if err != nil {
							break
						}
						if pi == 0 {
							first = v
							continue
						}
						if v != first {
							cl := classify(v, first)
							r.Violate("merge-direct-triples", "assoc-"+cl,
								fmt.Sprintf("%s stored=%s: {%s, %s, %s}: order %v gives %v, order 0,1,2 gives %v", c, s.name, in[ai], in[bi], in[ci], p, v, first),
								map[string]any{"cfg": c.String(), "stored": s.name, "a": in[ai].String(), "b": in[bi].String(), "c": in[ci].String(), "perm": p})
							break
						}
					}
					tripleOutcomes.Store(first, true)
				}
			}
		}
	})
	nOut := 0
	tripleOutcomes.Range(func(k, v any) bool { nOut++; return true })
	r.AddPart(&ev.Part{Name: "merge-direct-triples", Engine: "E1", Exhaustive: true,
		States: int64(len(tasks)), Transitions: nMerge.Load(), Executions: nTriple.Load(), Distinct: int64(nOut),
		Bound:   fmt.Sprintf("all incoming multisets of size 3 in all 6 orders x %d stored x %d configs", len(sts), len(cfgsTriple)),
		Samples: []any{"fv=3,cutoff=0,defTS=0 stored=del@1 {in(ts=1,val=\"a\",flags=0), in(ts=1,val=\"\",flags=1), in(ts=2,val=\"b\",flags=3)}"}})

	// ---------- part C: through strategy.Update on a real DBI ----------
	cfgsDB := cfgsAll
	if !r.Thorough() {
		cfgsDB = []cfg{{3, 0, 0}, {3, 2, 0}, {2, 0, 0}, {1, 0, 0}, {3, 0, 2}, {1, 3, 3}}
	}
	tasks = tasks[:0]
	for si := range sts {
		for _, c := range cfgsDB {
			tasks = append(tasks, task{si, c})
		}
	}
	envs := make([]*world.Env, workers)
	var nTxn, nDB atomic.Int64
	dbOut := sync.Map{}
	key := []byte("k")
	nbRaw := world.MakeHdr(9, 3, 0, 0, []byte("nb"))
	par.ForEach(len(tasks), workers, func(w, ti int) {
		if envs[w] == nil {
			envs[w] = world.NewEnv(0)
		}
		env := envs[w]
		in := wincs[w]
		t := tasks[ti]
		s := sts[t.si]
		c := t.c
		reset := func() {
			err := env.Update(func(txn *lmdb.Txn) error {
				dbi, err := txn.OpenDBI("d", lmdb.Create)
				if err != nil {
					return err
				}
				if err := txn.Drop(dbi, false); err != nil {
					return err
				}
				// marker so that the reset transaction is never empty
				if err := txn.Put(dbi, []byte("zz-marker"), []byte{1}, 0); err != nil {
					return err
				}
				// neighbours of the key, equal to the neighbour entries of every incoming snapshot (merging them is a no-op)
				for _, nk := range []string{"j", "l"} {
					if err := txn.Put(dbi, []byte(nk), nbRaw, 0); err != nil {
						return err
					}
				}
				if s.raw != nil {
					return txn.Put(dbi, key, s.raw, 0)
				}
				return nil
			})
			if err != nil {
				panic(err)
			}
		}
		get := func() []byte {
			var out []byte
			_ = env.View(func(txn *lmdb.Txn) error {
				dbi, err := txn.OpenDBI("d", 0)
				if err != nil {
					panic(err)
				}
				v, err := txn.Get(dbi, key)
				if err == nil {
					out = append([]byte{}, v...)
				}
				return nil
			})
			return out
		}
		apply := func(a inc) (int64, error) {
			var id int64
			err := env.Update(func(txn *lmdb.Txn) error {
				id = int64(txn.ID())
				dbi, err := txn.OpenDBI("d", 0)
				if err != nil {
					return err
				}
				a.dbi3.ResetCursor()
				it, err := syncer.NewNativeIterator(c.fv, 1, a.dbi3, header.Timestamp(c.defTS), header.TxnID(txn.ID()), header.Timestamp(c.cutoff))
				if err != nil {
					return err
				}
				if err := strategy.Update(txn, dbi, it); err != nil {
					return err
				}
				for _, nk := range []string{"j", "l"} {
					if v, err := txn.Get(dbi, []byte(nk)); err != nil || string(v) != string(nbRaw) {
						r.Violate("update-on-lmdb", "neighbour-entry-changed", fmt.Sprintf("%s stored=%s %s: neighbour key %s (stored and incoming identical) is now %x (err %v)", c, s.name, a, nk, v, err), nil)
					}
				}
				return nil
			})
			nTxn.Add(1)
			return id, err
		}
		for ai := range in {
			for bi := range in {
				if !r.Thorough() && (ai+bi)%3 != 0 {
					continue
				}
				a, b := in[ai], in[bi]
				reset()
				nDB.Add(1)
				rep := map[string]any{"cfg": c.String(), "stored": s.name, "a": a.String(), "b": b.String()}
				before := get()
				last0 := env.LastTxnID()
				id, err := apply(a)
				if err != nil {
					r.Violate("update-on-lmdb", "update-error", fmt.Sprintf("%s stored=%s %s: %v", c, s.name, a, err), rep)
					continue
				}
				after := get()
				last1 := env.LastTxnID()
				if string(before) == string(after) {
					if last1 != last0 {
						r.Violate("update-on-lmdb", "write-without-change", fmt.Sprintf("%s stored=%s %s: content unchanged but a transaction was committed (%d -> %d)", c, s.name, a, last0, last1), rep)
					}
				} else {
					if last1 != id {
						r.Violate("update-on-lmdb", "txn-accounting", fmt.Sprintf("changed content but LastTxnID %d != txn %d", last1, id), rep)
					}
					if h, _, err := world.ReadHdr(after); err == nil && after != nil && h.TxnID != uint64(id) {
						r.Violate("update-on-lmdb", "header-txnid-wrong", fmt.Sprintf("%s stored=%s %s: header txn id %d, written in txn %d", c, s.name, a, h.TxnID, id), rep)
					}
				}
				// compare with direct merge
				want, _ := merge(s.raw, a, c)
				wv, _ := lcOf(want)
				gv, gerr := lcOf(after)
				if gerr != nil || wv != gv {
					r.Violate("update-on-lmdb", "lmdb-differs-from-direct-merge", fmt.Sprintf("%s stored=%s %s: LMDB has %v, direct merge gives %v", c, s.name, a, gv, wv), rep)
				}
				if _, err := apply(b); err != nil {
					continue
				}
				x, _ := lcOf(get())
				// other order
				reset()
				if _, err := apply(b); err != nil {
					continue
				}
				if _, err := apply(a); err != nil {
					continue
				}
				y, _ := lcOf(get())
				dbOut.Store(x, true)
				if !relOK(a, c) || !relOK(b, c) {
					continue
				}
				if x != y {
					r.Violate("update-on-lmdb", "commute-"+classify(x, y), fmt.Sprintf("%s stored=%s: a=%s b=%s: s+a+b=%v but s+b+a=%v (through strategy.Update)", c, s.name, a, b, x, y), rep)
				}
			}
		}
	})
	for _, e := range envs {
		e.Destroy()
	}
	nOut = 0
	dbOut.Range(func(k, v any) bool { nOut++; return true })
	r.AddPart(&ev.Part{Name: "update-on-lmdb", Engine: "E1", Exhaustive: r.Thorough(),
		States: int64(len(tasks)), Transitions: nTxn.Load(), Executions: nDB.Load(), Distinct: int64(nOut),
		Bound:   fmt.Sprintf("%d stored x ordered incoming pairs (thorough: all %d^2; quick: every third) x %d configs through strategy.Update in real write transactions; the incoming entry sits between two neighbour entries in the snapshot DBI and in the LMDB", len(sts), len(incs), len(cfgsDB)),
		Note:    "quick tier visits every third ordered pair of the pair space (deterministic stride), thorough visits all",
		Samples: []any{"fv=3,cutoff=0,defTS=0 stored=live'a'@1 a=in(ts=1,val=\"a\",flags=0) -> no transaction committed"}})

	// ---------- part D: through LoadOnce, first merge into an empty DBI = any later merge ----------
	{
		pd := &ev.Part{Name: "loadonce-first-load-and-reload", Engine: "E1", Exhaustive: true}
		u32 := func(v uint32) []byte { b := make([]byte, 4); binary.LittleEndian.PutUint32(b, v); return b }
		type kset struct {
			name  string
			flags uint64
			keys  [][]byte
		}
		sets := []kset{
			{"integer-keys", 0x08, [][]byte{u32(1), u32(255), u32(256), u32(65536)}}, // integer order is not byte order
			{"byte-keys", 0, [][]byte{[]byte("a"), []byte("a\x00"), []byte("b")}},
		}
		for _, native := range []bool{true, false} {
			for _, ks := range sets {
				for mask := 1; mask < 1<<len(ks.keys); mask++ {
					bkt := world.NewBucket()
					a := inst.New("a", bkt, inst.Opt{Native: native})
					d := snapshot.NewDBISize(256)
					d.SetName("d")
					d.SetFlags(ks.flags)
					want := map[string]bool{}
					for i, k := range ks.keys {
						if mask&(1<<i) != 0 {
							d.Append(snapshot.KV{Key: k, Value: []byte("v"), TimestampNano: 1000 + uint64(i)})
							want[string(k)] = true
						}
					}
					msg := &snapshot.Snapshot{FormatVersion: 3, CompatVersion: 1, Databases: []*snapshot.DBI{d}}
					msg.Meta.InstanceID = "b"
					data, _, err := snapshot.DumpData(msg)
					if err != nil {
						ev.Fatal("dump: %v", err)
					}
					name := snapshot.Name(inst.DBName, "b", "GX", time.Unix(1, 0))
					content := func() string {
						pick := world.PickNative
						if !native {
							pick = world.PickShadow
						}
						lc, err := world.HeaderLC(a.Env.RawDump(), pick)
						if err != nil {
							return "malformed: " + err.Error()
						}
						return lc.String()
					}
					rep := map[string]any{"native": native, "keys": ks.name, "subset": mask}
					pd.Executions++
					pd.Transitions += 2
					if _, _, err := a.Load(name, data, 0); err != nil {
						r.Violate(pd.Name, "load-error", fmt.Sprintf("%s subset %b native=%v: %v", ks.name, mask, native, err), rep)
						a.Destroy()
						continue
					}
					first := content()
					lc, _ := world.HeaderLC(a.Env.RawDump(), map[bool]func(string) string{true: world.PickNative, false: world.PickShadow}[native])
					if len(lc["d"]) != len(want) {
						r.Violate(pd.Name, "first-load-incomplete", fmt.Sprintf("%s subset %b native=%v: %d of %d entries merged into the empty DBI: %s", ks.name, mask, native, len(lc["d"]), len(want), first), rep)
					}
					if _, _, err := a.Load(name, data, 1<<62); err != nil {
						r.Violate(pd.Name, "load-error", fmt.Sprintf("%s subset %b native=%v (second load): %v", ks.name, mask, native, err), rep)
					} else if second := content(); second != first {
						r.Violate(pd.Name, "merge-not-idempotent-through-loadonce", fmt.Sprintf("%s subset %b native=%v: after one load %s, after loading the same snapshot again %s", ks.name, mask, native, first, second), rep)
					}
					a.Destroy()
				}
			}
		}
		pd.States, pd.Distinct = pd.Executions, 2
		pd.Bound = "native and shadow x every non-empty subset of {1,255,256,65536} on an MDB_INTEGERKEY DBI and of {a,a00,b} on a plain DBI: real LoadOnce into an instance without the DBI, then the same snapshot again"
		r.AddPart(pd)
	}
	r.Finish()
}
