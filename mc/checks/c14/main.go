// C14 — values written by Lightning Stream always carry a well-formed header.
// Engine E1: every write path (merge-add, merge-replace, clean-to-marker,
// capture with default timestamp; with and without padding block) in real
// write transactions, raw values read back by an independent reader of the
// documented layout; Parse/Skip against that reader on structured byte strings.
package main

import (
	"bytes"
	"encoding/json"
	"flag"
	"fmt"
	"strings"
	"verif/lib/explore"
	"verif/lib/loopworld"
	"verif/lib/par"
	"verif/lib/xrun"

	"github.com/PowerDNS/lightningstream/lmdbenv/header"
	"github.com/PowerDNS/lightningstream/lmdbenv/strategy"
	"github.com/PowerDNS/lightningstream/snapshot"
	"github.com/PowerDNS/lightningstream/syncer"
	"github.com/PowerDNS/lmdb-go/lmdb"

	"verif/lib/ev"
	"verif/lib/world"
)

// part "sync-loop": the real Syncer.Sync loop with application commits at every hook and straddling
// application transactions; only the header oracle is judged here.
func runLoop(param json.RawMessage, ctx *explore.Ctx, viols *[]xrun.Viol) string {
	var cfg loopworld.Cfg
	_ = json.Unmarshal(param, &cfg)
	res := loopworld.Run(cfg, ctx)
	for _, v := range res.Viols {
		if loopworld.Judged(v.Sig, "c14") {
			*viols = append(*viols, xrun.Viol{Sig: v.Sig, Msg: v.Msg})
		}
	}
	return fmt.Sprintf("%s/stores=%d/loads=%d", res.Outcome, res.Stores, res.Loads)
}

func main() {
	flag.Parse()
	par.ServeIfWorker(map[string]par.Handler{"loop": xrun.Handler(runLoop)})
	if v, ok := ev.ReplayRequested(); ok {
		if strings.HasPrefix(v.Part, "sync-loop") {
			xrun.Replay(v, runLoop)
			return
		}
		fmt.Printf("  this part enumerates inputs; the replay artefact names the failing input directly: %v\n", v.Replay)
		return
	}
	r := ev.Start("C14")
	defer r.RecoverMain()
	defer world.Cleanup()
	r.Assume("independent reader written from docs/schema-native.md", "values {empty, 1 byte, 5 kB}; entry flags: all byte values, 2^8, 2^32-1; timestamps {0,1,2^63,2^64-1}")

	env := world.NewEnv(256 << 20)
	defer env.Destroy()

	var flagsAlpha []uint32
	for f := 0; f < 256; f++ {
		flagsAlpha = append(flagsAlpha, uint32(f))
	}
	flagsAlpha = append(flagsAlpha, 256, 257, 1<<32-1, 1<<32-2)
	vals := [][]byte{nil, []byte("x"), bytes.Repeat([]byte("v"), 5000)}
	tss := []uint64{0, 1, 1 << 63, 1<<64 - 1}

	pw := &ev.Part{Name: "write-paths", Engine: "E1", Exhaustive: true}
	classes := map[string]bool{}
	dbiN := 0
	check := func(what string, raw []byte, wantTS uint64, txnID int64, wantDel bool, wantVal []byte, padding bool, rep any) {
		pw.Executions++
		h, app, err := world.ReadHdr(raw)
		bad := func(sig, msg string) {
			r.Violate(pw.Name, sig, what+": "+msg, rep)
		}
		if err != nil {
			bad("written-header-unreadable", err.Error())
			return
		}
		if h.TS != wantTS {
			bad("written-timestamp-wrong", fmt.Sprintf("timestamp %d, expected %d", h.TS, wantTS))
		}
		if h.TxnID != uint64(txnID) {
			bad("written-txnid-wrong", fmt.Sprintf("txn id %d, written in transaction %d", h.TxnID, txnID))
		}
		if h.Flags&^1 != 0 {
			bad("written-flags-outside-synced-set", fmt.Sprintf("flags %#x", h.Flags))
		}
		if (h.Flags&1 != 0) != wantDel {
			bad("written-deleted-flag-wrong", fmt.Sprintf("flags %#x, expected deleted=%v", h.Flags, wantDel))
		}
		if h.Reserved != [4]byte{} {
			bad("written-reserved-nonzero", fmt.Sprintf("reserved %x", h.Reserved))
		}
		wantExt := 0
		if padding {
			wantExt = 1
		}
		if h.NumExt != wantExt {
			bad("written-extension-count-wrong", fmt.Sprintf("extension count %d, expected %d", h.NumExt, wantExt))
		}
		for _, b := range h.Ext {
			if b != 0 {
				bad("written-padding-nonzero", fmt.Sprintf("ext %x", h.Ext))
				break
			}
		}
		if wantDel {
			wantVal = nil
		}
		if !bytes.Equal(app, wantVal) {
			bad("written-value-wrong", fmt.Sprintf("application value %d bytes, expected %d bytes", len(app), len(wantVal)))
		}
		classes[fmt.Sprintf("%s/%v/%v/%d/%v", strings.Fields(what)[0], wantDel, padding, len(wantVal), wantTS == 0)] = true
	}

	// ---- remote merge through strategy.Update ----
	for _, fv := range []uint32{1, 2, 3} {
		for _, padding := range []bool{false, true} {
			for _, ts := range tss {
				for vi, val := range vals {
					for _, storedKind := range []string{"absent", "live-older", "deleted-older", "live-ext-older"} {
						if ts == 0 && storedKind != "absent" {
							continue
						}
						dbiN++
						dbiName := fmt.Sprintf("d%d", dbiN%20)
						// setup
						err := env.Update(func(txn *lmdb.Txn) error {
							dbi, err := txn.OpenDBI(dbiName, lmdb.Create)
							if err != nil {
								return err
							}
							if err := txn.Drop(dbi, false); err != nil {
								return err
							}
							for fi := range flagsAlpha {
								key := []byte(fmt.Sprintf("k%04d", fi))
								var st []byte
								switch storedKind {
								case "live-older":
									st = world.MakeHdr(0, 1, 0x80, 0, []byte("old"))
								case "deleted-older":
									st = world.MakeHdr(0, 1, 0x01, 0, nil)
								case "live-ext-older":
									st = world.MakeHdr(0, 1, 0x00, 2, []byte("old"))
								}
								if st != nil {
									if err := txn.Put(dbi, key, st, 0); err != nil {
										return err
									}
								}
							}
							return nil
						})
						if err != nil {
							ev.Fatal("setup: %v", err)
						}
						msg := snapshot.NewDBI()
						for fi, fl := range flagsAlpha {
							msg.Append(snapshot.KV{Key: []byte(fmt.Sprintf("k%04d", fi)), Value: val, TimestampNano: ts, Flags: fl})
						}
						var id int64
						err = env.Update(func(txn *lmdb.Txn) error {
							id = int64(txn.ID())
							dbi, err := txn.OpenDBI(dbiName, 0)
							if err != nil {
								return err
							}
							it, err := syncer.NewNativeIterator(fv, 1, msg, 0, header.TxnID(txn.ID()), 0)
							if err != nil {
								return err
							}
							it.HeaderPaddingBlock = padding
							return strategy.Update(txn, dbi, it)
						})
						pw.Transitions++
						if err != nil {
							r.Violate(pw.Name, "update-error", fmt.Sprintf("fv=%d padding=%v ts=%d val#%d stored=%s: %v", fv, padding, ts, vi, storedKind, err), nil)
							continue
						}
						_ = env.View(func(txn *lmdb.Txn) error {
							dbi, _ := txn.OpenDBI(dbiName, 0)
							for fi, fl := range flagsAlpha {
								key := []byte(fmt.Sprintf("k%04d", fi))
								raw, err := txn.Get(dbi, key)
								what := fmt.Sprintf("merge fv=%d padding=%v ts=%d val=%dB entryflags=%#x stored=%s", fv, padding, ts, len(val), fl, storedKind)
								if err != nil {
									r.Violate(pw.Name, "merged-entry-missing", what, nil)
									continue
								}
								wantDel := uint8(fl)&1 != 0 || (fv < 2 && len(val) == 0)
								if ts == 0 && storedKind != "absent" {
									continue
								}
								check(what, raw, ts, id, wantDel, val, padding, map[string]any{"fv": fv, "padding": padding, "ts": ts, "vallen": len(val), "flags": fl, "stored": storedKind})
							}
							return nil
						})
					}
				}
			}
		}
	}

	// ---- capture (IterUpdate with default timestamp) incl. clean-to-marker ----
	for _, padding := range []bool{false, true} {
		for _, defTS := range []uint64{1, 5, 1<<64 - 1} {
			dbiN++
			dbiName := fmt.Sprintf("c%d", dbiN%20)
			// stored: a (live, will change), b (live, vanishes -> marker), c (marker, stays), d (live ext, vanishes), e unchanged
			err := env.Update(func(txn *lmdb.Txn) error {
				dbi, err := txn.OpenDBI(dbiName, lmdb.Create)
				if err != nil {
					return err
				}
				if err := txn.Drop(dbi, false); err != nil {
					return err
				}
				put := func(k string, v []byte) { must(txn.Put(dbi, []byte(k), v, 0)) }
				put("a", world.MakeHdr(0, 1, 0, 0, []byte("old")))
				put("b", world.MakeHdr(0, 1, 0, 0, []byte("gone")))
				put("c", world.MakeHdr(0, 1, 1, 0, nil))
				put("d", world.MakeHdr(0, 1, 0x82, 1, bytes.Repeat([]byte("g"), 5000)))
				put("e", world.MakeHdr(0, 1, 0, 0, []byte("same")))
				return nil
			})
			must(err)
			msg := snapshot.NewDBI()
			msg.Append(snapshot.KV{Key: []byte("a"), Value: []byte("new")})
			msg.Append(snapshot.KV{Key: []byte("e"), Value: []byte("same")})
			msg.Append(snapshot.KV{Key: []byte("f"), Value: bytes.Repeat([]byte("n"), 5000)})
			msg.Append(snapshot.KV{Key: []byte("g"), Value: nil})
			var id int64
			err = env.Update(func(txn *lmdb.Txn) error {
				id = int64(txn.ID())
				dbi, _ := txn.OpenDBI(dbiName, 0)
				it, err := syncer.NewNativeIterator(3, 1, msg, header.Timestamp(defTS), header.TxnID(txn.ID()), 0)
				if err != nil {
					return err
				}
				it.HeaderPaddingBlock = padding
				return strategy.IterUpdate(txn, dbi, it)
			})
			pw.Transitions++
			if err != nil {
				r.Violate(pw.Name, "iterupdate-error", fmt.Sprintf("capture padding=%v defTS=%d: %v", padding, defTS, err), nil)
				continue
			}
			_ = env.View(func(txn *lmdb.Txn) error {
				dbi, _ := txn.OpenDBI(dbiName, 0)
				get := func(k string) []byte {
					v, err := txn.Get(dbi, []byte(k))
					if err != nil {
						r.Violate(pw.Name, "captured-entry-missing", k, nil)
						return nil
					}
					return v
				}
				w := fmt.Sprintf("capture padding=%v defTS=%d key=", padding, defTS)
				rep := map[string]any{"padding": padding, "defTS": defTS}
				check(w+"a(changed)", get("a"), defTS, id, false, []byte("new"), padding, rep)
				check(w+"b(vanished->marker)", get("b"), defTS, id, true, nil, padding, rep)
				check(w+"d(vanished,ext->marker)", get("d"), defTS, id, true, nil, padding, rep)
				check(w+"f(new 5kB)", get("f"), defTS, id, false, bytes.Repeat([]byte("n"), 5000), padding, rep)
				if raw := get("e"); !bytes.Equal(raw, world.MakeHdr(0, 1, 0, 0, []byte("same"))) {
					r.Violate(pw.Name, "capture-touched-unchanged-entry", w+"e", rep)
				}
				if raw := get("c"); !bytes.Equal(raw, world.MakeHdr(0, 1, 1, 0, nil)) {
					r.Violate(pw.Name, "capture-touched-existing-marker", w+"c", rep)
				}
				return nil
			})
		}
	}
	// ---- two syncers in one process: another iterator builds a value between this iterator's decision and the
	// moment the strategy stores it ----
	for _, clean := range []bool{false, true} {
		for _, otherDeleted := range []bool{false, true} {
			dbiN++
			dbiName := fmt.Sprintf("w%d", dbiN%20)
			must(env.Update(func(txn *lmdb.Txn) error {
				dbi, err := txn.OpenDBI(dbiName, lmdb.Create)
				if err != nil {
					return err
				}
				if err := txn.Drop(dbi, false); err != nil {
					return err
				}
				return txn.Put(dbi, []byte("stored-only"), world.MakeHdr(1, 1, 0, 0, []byte("gone")), 0)
			}))
			mine := snapshot.NewDBISize(256)
			mine.Append(snapshot.KV{Key: []byte("mine"), Value: []byte("value-one"), TimestampNano: 111})
			theirs := snapshot.NewDBISize(256)
			var ofl uint32
			if otherDeleted {
				ofl = 1
			}
			theirs.Append(snapshot.KV{Key: []byte("theirs"), Value: bytes.Repeat([]byte("O"), 40), TimestampNano: 999, Flags: ofl})
			var id int64
			err := env.Update(func(txn *lmdb.Txn) error {
				id = int64(txn.ID())
				dbi, _ := txn.OpenDBI(dbiName, 0)
				it, err := syncer.NewNativeIterator(3, 1, mine, 5, header.TxnID(txn.ID()), 0)
				if err != nil {
					return err
				}
				oit, err := syncer.NewNativeIterator(3, 1, theirs, 7, 424242, 0)
				if err != nil {
					return err
				}
				if _, err := oit.Next(); err != nil {
					return err
				}
				d := &disturbed{NativeIterator: it, other: func() { _, _ = oit.Merge(nil) }}
				if clean {
					return strategy.IterUpdate(txn, dbi, d)
				}
				return strategy.Update(txn, dbi, d)
			})
			pw.Transitions++
			if err != nil {
				r.Violate(pw.Name, "update-error", fmt.Sprintf("disturbed clean=%v: %v", clean, err), nil)
				continue
			}
			_ = env.View(func(txn *lmdb.Txn) error {
				dbi, _ := txn.OpenDBI(dbiName, 0)
				rep := map[string]any{"clean": clean, "other_deleted": otherDeleted}
				if raw, err := txn.Get(dbi, []byte("mine")); err != nil {
					r.Violate(pw.Name, "merged-entry-missing", "disturbed: key mine", rep)
				} else {
					check(fmt.Sprintf("disturbed-merge (another iterator builds a value in between) clean=%v otherDeleted=%v", clean, otherDeleted), raw, 111, id, false, []byte("value-one"), false, rep)
				}
				if clean {
					if raw, err := txn.Get(dbi, []byte("stored-only")); err != nil {
						r.Violate(pw.Name, "captured-entry-missing", "disturbed: key stored-only", rep)
					} else {
						check(fmt.Sprintf("disturbed-clean (another iterator builds a value in between) otherDeleted=%v", otherDeleted), raw, 5, id, true, nil, false, rep)
					}
				}
				return nil
			})
		}
	}
	pw.States = int64(len(classes))
	pw.Distinct = int64(len(classes))
	pw.Bound = fmt.Sprintf("format 1..3 x padding on/off x %d timestamps x %d values x %d entry flag values x stored{absent,live,deleted,live+2ext}; capture: padding x 3 default timestamps x {changed, vanished, vanished+ext, marker, unchanged, new}", len(tss), len(vals), len(flagsAlpha))
	pw.Samples = []any{"merge fv=1 padding=true ts=2^63 val=0B entryflags=0xfe stored=live-ext-older", "capture padding=false defTS=5 key=b(vanished->marker)"}
	r.AddPart(pw)

	// ---- read side: Parse / Skip vs independent reader ----
	pr := &ev.Part{Name: "parse-skip-vs-reference", Engine: "E1", Exhaustive: true}
	rclasses := map[string]bool{}
	maxLen := ev.Pick(r, 48, 64)
	for l := 0; l <= maxLen; l++ {
		for _, ver := range []byte{0, 1, 255} {
			for _, next := range []int{0, 1, 2, 3, 4, 255, 256, 65535} {
				for _, fl := range []byte{0, 1, 2, 0xff} {
					for _, fill := range []byte{0, 0xAB} {
						b := make([]byte, l)
						for i := range b {
							b[i] = fill + byte(i)
						}
						if l > 16 {
							b[16] = ver
						}
						if l > 17 {
							b[17] = fl
						}
						if l > 22 {
							b[22] = byte(next >> 8)
						}
						if l > 23 {
							b[23] = byte(next)
						}
						pr.Executions++
						pr.Transitions += 2
						rh, rapp, rerr := world.ReadHdr(b)
						h, app, err := header.Parse(b)
						sapp, serr := header.Skip(b)
						rep := map[string]any{"bytes": fmt.Sprintf("%x", b)}
						rclasses[fmt.Sprintf("%v/%d", rerr, min(rh.NumExt, 5))] = true
						if (rerr == nil) != (err == nil) || (rerr == nil) != (serr == nil) {
							r.Violate(pr.Name, "parse-accepts-differs-from-reference", fmt.Sprintf("len=%d ver=%d next=%d: reference err=%v Parse err=%v Skip err=%v", l, ver, next, rerr, err, serr), rep)
							continue
						}
						if rerr != nil {
							// a stored value that is not a well-formed header must make the merge fail, whatever the
							// incoming version is (older, same or newer than the 8 bytes in the timestamp position)
							if l > 0 {
								var first uint64
								for i := 0; i < 8 && i < l; i++ {
									first = first<<8 | uint64(b[i])
								}
								for _, its := range []uint64{1, first - 1, first, first + 1, 1<<64 - 1} {
									if its == 0 {
										continue
									}
									for _, clean := range []bool{false, true} {
										d := snapshot.NewDBISize(64)
										d.Append(snapshot.KV{Key: []byte("k"), Value: []byte("v"), TimestampNano: its})
										it, err := syncer.NewNativeIterator(3, 1, d, 0, 7, 0)
										must(err)
										_, err = it.Next()
										must(err)
										pr.Transitions++
										var out []byte
										if clean {
											out, err = it.Clean(b)
										} else {
											out, err = it.Merge(b)
										}
										if err == nil {
											r.Violate(pr.Name, "malformed-stored-value-not-rejected-by-merge", fmt.Sprintf("stored value %x (len=%d ver=%d next=%d: %v) with incoming ts=%d (clean=%v): no error, result %x", b, l, ver, next, rerr, its, clean, out), rep)
										}
									}
								}
							}
							continue
						}
						if !bytes.Equal(rapp, app) || !bytes.Equal(rapp, sapp) {
							r.Violate(pr.Name, "parse-value-differs-from-reference", fmt.Sprintf("len=%d next=%d: reference value %x, Parse %x, Skip %x", l, next, rapp, app, sapp), rep)
						}
						if uint64(h.Timestamp) != rh.TS || uint64(h.TxnID) != rh.TxnID || byte(h.Flags) != rh.Flags || h.NumExtra != rh.NumExt || !bytes.Equal(h.Extra, rh.Ext) {
							r.Violate(pr.Name, "parse-fields-differ-from-reference", fmt.Sprintf("len=%d next=%d: %+v vs %+v", l, next, h, rh), rep)
						}
					}
				}
			}
		}
	}
	// extension count 65535 with a full-size value
	{
		b := world.MakeHdr(7, 9, 1, 65535, []byte("tail"))
		_, app, err := header.Parse(b)
		sapp, serr := header.Skip(b)
		pr.Executions++
		if err != nil || serr != nil || string(app) != "tail" || string(sapp) != "tail" {
			r.Violate(pr.Name, "parse-65535-extensions", fmt.Sprintf("err=%v/%v app=%q/%q", err, serr, app, sapp), nil)
		}
		_, _, err = header.Parse(b[:len(b)-5])
		if err == nil {
			r.Violate(pr.Name, "parse-65535-extensions-short-accepted", "value one byte shorter than its extension blocks accepted", nil)
		}
	}
	pr.States = int64(len(rclasses))
	pr.Distinct = int64(len(rclasses))
	pr.Bound = fmt.Sprintf("all lengths 0..%d x version{0,1,255} x extension count{0,1,2,3,4,255,256,65535} x flags{0,1,2,255} x 2 fill patterns; every malformed value also as the stored value of NativeIterator.Merge/Clean with incoming timestamps around its first 8 bytes", maxLen)
	pr.Samples = []any{"len=31 ver=0 next=1 -> too short", "len=40 ver=0 next=2 -> value = last 0 bytes"}
	r.AddPart(pr)

	// ---- Header.Bytes (used by tools/tests) round trip through the reference reader ----
	pb := &ev.Part{Name: "header-bytes", Engine: "E1", Exhaustive: true}
	for _, ts := range tss {
		for _, fl := range []header.Flags{0, 1} {
			for _, ne := range []int{0, 1, 3} {
				for _, extraLen := range []int{0, 1, 8, 9, 41} {
					h := header.Header{Timestamp: header.Timestamp(ts), TxnID: 77, Flags: fl, NumExtra: ne, Extra: bytes.Repeat([]byte{0xCD}, extraLen)}
					b := append(h.Bytes(), []byte("app")...)
					pb.Executions++
					pb.Transitions++
					rh, app, err := world.ReadHdr(b)
					wantN := ne
					if (extraLen+7)/8 > wantN {
						wantN = (extraLen + 7) / 8
					}
					if err != nil || string(app) != "app" || rh.TS != ts || rh.TxnID != 77 || rh.Flags != byte(fl) || rh.NumExt != wantN || rh.Reserved != [4]byte{} {
						r.Violate(pb.Name, "header-bytes-malformed", fmt.Sprintf("Header%+v -> %x (err %v)", h, b, err), nil)
					}
				}
			}
		}
	}
	pb.States = pb.Executions
	pb.Distinct = 2
	pb.Bound = "timestamps x flags{0,1} x NumExtra{0,1,3} x extra length{0,1,8,9,41}"
	pb.Samples = []any{"Header{ts=1,flags=1,NumExtra=1,Extra=9 bytes}"}
	r.AddPart(pb)

	// ---- the transaction id in the header, under concurrency with the application ----
	for _, native := range []bool{true, false} {
		name := "sync-loop-" + map[bool]string{true: "native", false: "shadow"}[native]
		xrun.Explore(r, name, xrun.Opts{Kind: "loop", Bound: ev.Pick(r, 1, 2), Budget: 30, Recycle: 4,
			Param: loopworld.Cfg{Native: native, Remote2: true, Straddle: true, MaxVisits: 1, AppOps: []string{"put-b", "del-a"}}})
	}
	r.Finish()
}

// disturbed lets another iterator (of another Syncer in the same process) build a value right after this
// iterator's Merge/Clean decision, i.e. before the strategy stores the returned bytes.
type disturbed struct {
	*syncer.NativeIterator
	other func()
}

func (d *disturbed) Merge(old []byte) ([]byte, error) {
	v, err := d.NativeIterator.Merge(old)
	d.other()
	return v, err
}

func (d *disturbed) Clean(old []byte) ([]byte, error) {
	v, err := d.NativeIterator.Clean(old)
	d.other()
	return v, err
}

func must(err error) {
	if err != nil {
		panic(err)
	}
}
