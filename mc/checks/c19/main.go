// C19 — update strategies apply exactly the iterator's decisions, in the DBI's key order.
// Engine E1: all stored subsets x all input subsets of collision-forcing key
// universes x merge/clean decisions, Update / IterUpdate / EmptyPut on real DBIs
// (byte keys, 4- and 8-byte MDB_INTEGERKEY), against a map model.
package main

import (
	"bytes"
	"encoding/binary"
	"errors"
	"flag"
	"fmt"
	"io"
	"sort"
	"strings"

	"github.com/PowerDNS/lightningstream/lmdbenv/strategy"
	"github.com/PowerDNS/lmdb-go/lmdb"

	"verif/lib/ev"
	"verif/lib/world"
)

type dec int

const (
	keep dec = iota
	replace
	del
)

// scripted iterator
type sit struct {
	keys   [][]byte
	mdec   func(key []byte) dec
	cdec   func(stored []byte) dec
	cur    int
	merges map[string][][]byte // key -> oldvals passed to Merge, in order
	cleans [][]byte
	during func() // if set: runs at every Next (what another syncer of the same process may do in between)
}

func (s *sit) Next() ([]byte, error) {
	if s.during != nil {
		s.during()
	}
	if s.cur >= len(s.keys) {
		return nil, io.EOF
	}
	k := s.keys[s.cur]
	s.cur++
	return k, nil
}
func (s *sit) Merge(old []byte) ([]byte, error) {
	k := s.keys[s.cur-1]
	s.merges[string(k)] = append(s.merges[string(k)], append([]byte(nil), old...))
	switch s.mdec(k) {
	case keep:
		return old, nil
	case replace:
		return append([]byte("N"), k...), nil
	}
	return nil, nil
}
func (s *sit) Clean(old []byte) ([]byte, error) {
	s.cleans = append(s.cleans, append([]byte(nil), old...))
	switch s.cdec(old) {
	case keep:
		return old, nil
	case replace:
		return append([]byte("C"), old...), nil
	}
	return nil, nil
}

var errRollback = errors.New("rollback")

type universe struct {
	name  string
	keys  [][]byte // in the DBI's own order
	flags uint
}

func u32(v uint32) []byte { b := make([]byte, 4); binary.LittleEndian.PutUint32(b, v); return b }
func u64(v uint64) []byte { b := make([]byte, 8); binary.LittleEndian.PutUint64(b, v); return b }

func subsets(n int) [][]int {
	var out [][]int
	for m := 0; m < 1<<n; m++ {
		var s []int
		for i := 0; i < n; i++ {
			if m&(1<<i) != 0 {
				s = append(s, i)
			}
		}
		out = append(out, s)
	}
	return out
}

func main() {
	flag.Parse()
	if v, ok := ev.ReplayRequested(); ok {
		fmt.Printf("  this check enumerates inputs; the replay artefact names the failing input directly: %v\n", v.Replay)
		return
	}
	r := ev.Start("C19")
	defer r.RecoverMain()
	defer world.Cleanup()
	r.Assume("little-endian host (integer keys compared as native unsigned integers)",
		"decisions enumerated exhaustively per key for <=4-key universes, by 9 decision patterns (all-keep/replace/delete and 6 rotations) for the larger ones")

	env := world.NewEnv(64 << 20)
	defer env.Destroy()

	long := bytes.Repeat([]byte("k"), 511)
	bytesU := universe{"bytes", [][]byte{{0}, []byte("a"), []byte("a\x00"), []byte("ab"), []byte("b"), long, {0xff}}, 0}
	int4U := universe{"int4", [][]byte{u32(0), u32(1), u32(255), u32(256), u32(1 << 31), u32(1<<32 - 1)}, lmdb.Create | 0x08}
	int8U := universe{"int8", [][]byte{u64(0), u64(1), u64(1 << 32), u64(1<<63 + 1)}, lmdb.Create | 0x08}
	// sanity: bytes universe must be in byte order
	if !sort.SliceIsSorted(bytesU.keys, func(i, j int) bool { return bytes.Compare(bytesU.keys[i], bytesU.keys[j]) < 0 }) {
		ev.Fatal("bytes universe not sorted")
	}
	unis := []universe{bytesU, int4U, int8U}
	small := map[string]int{"bytes": 4, "int4": 4, "int8": 4} // exhaustive-decision universes (prefix of keys... chosen below)

	storedVal := func(k []byte) []byte { return append([]byte("S"), k...) }

	type result struct {
		content map[string]string
		err     error
		it      *sit
	}
	run := func(u universe, strat string, stored []int, input [][]byte, md func([]byte) dec, cd func([]byte) dec) result {
		var res result
		err := env.Update(func(txn *lmdb.Txn) error {
			dbi, err := txn.OpenDBI("u_"+u.name, lmdb.Create|u.flags)
			if err != nil {
				return err
			}
			for _, i := range stored {
				if err := txn.Put(dbi, u.keys[i], storedVal(u.keys[i]), 0); err != nil {
					return err
				}
			}
			it := &sit{keys: input, mdec: md, cdec: cd, merges: map[string][][]byte{}}
			res.it = it
			switch strat {
			case "Update":
				res.err = strategy.Update(txn, dbi, it)
			case "IterUpdate":
				res.err = strategy.IterUpdate(txn, dbi, it)
			case "EmptyPut":
				res.err = strategy.EmptyPut(txn, dbi, it)
			}
			res.content = map[string]string{}
			c, err := txn.OpenCursor(dbi)
			if err != nil {
				return err
			}
			defer c.Close()
			for f := uint(lmdb.First); ; f = lmdb.Next {
				k, v, err := c.Get(nil, nil, f)
				if lmdb.IsNotFound(err) {
					break
				}
				if err != nil {
					return err
				}
				res.content[string(k)] = string(v)
			}
			return errRollback
		})
		if err != errRollback {
			ev.Fatal("harness txn: %v", err)
		}
		return res
	}

	model := func(u universe, strat string, stored []int, input [][]byte, md func([]byte) dec, cd func([]byte) dec) map[string]string {
		m := map[string]string{}
		if strat != "EmptyPut" {
			for _, i := range stored {
				m[string(u.keys[i])] = string(storedVal(u.keys[i]))
			}
		}
		inInput := map[string]bool{}
		for _, k := range input {
			inInput[string(k)] = true
			switch md(k) {
			case keep:
			case replace:
				m[string(k)] = "N" + string(k)
			case del:
				delete(m, string(k))
			}
		}
		if strat == "IterUpdate" {
			for _, i := range stored {
				k := string(u.keys[i])
				if inInput[k] {
					continue
				}
				switch cd(storedVal(u.keys[i])) {
				case keep:
				case replace:
					m[k] = "C" + string(storedVal(u.keys[i]))
				case del:
					delete(m, k)
				}
			}
		}
		return m
	}

	fm := func(m map[string]string) string {
		var ks []string
		for k := range m {
			ks = append(ks, k)
		}
		sort.Strings(ks)
		var sb strings.Builder
		for _, k := range ks {
			kk := k
			if len(kk) > 12 {
				kk = kk[:4] + "..."
			}
			fmt.Fprintf(&sb, "%x=%.6s ", kk, m[k])
		}
		return sb.String()
	}

	part := &ev.Part{Name: "strategies-vs-map-model", Engine: "E1", Exhaustive: true}
	outcomes := map[string]bool{}
	pos := func(u universe, k []byte) int {
		for i, x := range u.keys {
			if bytes.Equal(x, k) {
				return i
			}
		}
		return -1
	}
	checkCase := func(u universe, strat string, stored []int, inIdx []int, md func([]byte) dec, cd func([]byte) dec, label string) {
		input := make([][]byte, len(inIdx))
		for i, x := range inIdx {
			input[i] = u.keys[x]
		}
		res := run(u, strat, stored, input, md, cd)
		part.Executions++
		part.Transitions += int64(len(stored) + len(input))
		rep := map[string]any{"universe": u.name, "strategy": strat, "stored": stored, "input": inIdx, "decisions": label}
		if res.err != nil {
			sig := "valid-input-rejected"
			if errors.Is(res.err, strategy.ErrNotSorted) {
				sig = "valid-input-rejected-not-sorted"
				if len(inIdx) > 0 && u.flags != 0 && inIdx[0] == 0 {
					sig = "valid-input-rejected-not-sorted-integer-key-0-first"
				}
			}
			r.Violate(part.Name, sig, fmt.Sprintf("%s/%s stored=%v input=%v (%s): %v", u.name, strat, stored, inIdx, label, res.err), rep)
			outcomes["err"] = true
			return
		}
		want := model(u, strat, stored, input, md, cd)
		if fm(want) != fm(res.content) {
			r.Violate(part.Name, "content-differs-from-model-"+strat, fmt.Sprintf("%s/%s stored=%v input=%v (%s): got {%s} want {%s}", u.name, strat, stored, inIdx, label, fm(res.content), fm(want)), rep)
		}
		// Merge must have received exactly the stored value for its final decision
		st := map[string]bool{}
		for _, i := range stored {
			st[string(u.keys[i])] = true
		}
		if strat != "EmptyPut" {
			for _, k := range input {
				calls := res.it.merges[string(k)]
				if len(calls) == 0 {
					r.Violate(part.Name, "merge-not-called", fmt.Sprintf("%s/%s key %x", u.name, strat, k), rep)
					continue
				}
				last := calls[len(calls)-1]
				var wantOld []byte
				if st[string(k)] {
					wantOld = storedVal(k)
				}
				if !bytes.Equal(last, wantOld) {
					r.Violate(part.Name, "merge-got-wrong-stored-value", fmt.Sprintf("%s/%s stored=%v input=%v key#%d: Merge got %q, stored is %q", u.name, strat, stored, inIdx, pos(u, k), last, wantOld), rep)
				}
			}
		}
		if strat == "IterUpdate" {
			nStoredOnly := 0
			inSet := map[int]bool{}
			for _, x := range inIdx {
				inSet[x] = true
			}
			for _, i := range stored {
				if !inSet[i] {
					nStoredOnly++
				}
			}
			if len(res.it.cleans) != nStoredOnly {
				r.Violate(part.Name, "clean-call-count", fmt.Sprintf("%s stored=%v input=%v: %d Clean calls, %d stored-only keys", u.name, stored, inIdx, len(res.it.cleans), nStoredOnly), rep)
			}
		}
		outcomes[fmt.Sprintf("%d", len(res.content))] = true
	}

	patterns := []struct {
		name string
		f    func(i int) dec
	}{
		{"all-keep", func(int) dec { return keep }}, {"all-replace", func(int) dec { return replace }}, {"all-delete", func(int) dec { return del }},
		{"rot0", func(i int) dec { return dec(i % 3) }}, {"rot1", func(i int) dec { return dec((i + 1) % 3) }}, {"rot2", func(i int) dec { return dec((i + 2) % 3) }},
		{"rrot0", func(i int) dec { return dec((3 - i%3) % 3) }}, {"rrot1", func(i int) dec { return dec((4 - i%3) % 3) }}, {"rrot2", func(i int) dec { return dec((5 - i%3) % 3) }},
	}

	for _, u := range unis {
		n := len(u.keys)
		if !r.Thorough() && n > 5 {
			// quick: universe of 5 keys that keeps the order-sensitive witnesses
			if u.name == "bytes" {
				u.keys = [][]byte{u.keys[0], u.keys[1], u.keys[2], u.keys[3], u.keys[6]}
			} else {
				u.keys = u.keys[:5]
			}
			n = 5
		}
		subs := subsets(n)
		keyIdx := func(k []byte) int {
			if k[0] == 'S' { // stored value passed to Clean
				k = k[1:]
			}
			return pos(u, k)
		}
		// (1) pattern decisions over the full universe
		for _, strat := range []string{"Update", "IterUpdate", "EmptyPut"} {
			for _, st := range subs {
				for _, in := range subs {
					for _, mp := range patterns {
						cps := patterns
						if strat != "IterUpdate" {
							cps = patterns[:1]
						}
						for _, cp := range cps {
							if !r.Thorough() && strat == "IterUpdate" && mp.name[0] == 'r' && cp.name[0] == 'r' && mp.name != cp.name {
								continue
							}
							checkCase(u, strat, st, in, func(k []byte) dec { return mp.f(keyIdx(k)) }, func(o []byte) dec { return cp.f(keyIdx(o)) }, mp.name+"/"+cp.name)
						}
					}
				}
			}
		}
		// (2) exhaustive per-key decisions on the first `small` keys
		sn := small[u.name]
		ssubs := subsets(sn)
		pow3 := func(k int) int {
			p := 1
			for i := 0; i < k; i++ {
				p *= 3
			}
			return p
		}
		for _, strat := range []string{"Update", "IterUpdate"} {
			for _, st := range ssubs {
				for _, in := range ssubs {
					for code := 0; code < pow3(sn); code++ { // decision per key index (merge if in input, clean if stored-only)
						decOf := func(i int) dec {
							c := code
							for j := 0; j < i; j++ {
								c /= 3
							}
							return dec(c % 3)
						}
						checkCase(u, strat, st, in, func(k []byte) dec { return decOf(keyIdx(k)) }, func(o []byte) dec { return decOf(keyIdx(o)) }, fmt.Sprintf("code%d", code))
					}
				}
			}
		}
		// (3) ill-ordered input to the iterating strategy must be rejected; Update accepts any order
		for _, st := range subs {
			for _, in := range subs {
				if len(in) < 1 {
					continue
				}
				var bads [][]int
				for i := 0; i+1 < len(in); i++ {
					b := append([]int{}, in...)
					b[i], b[i+1] = b[i+1], b[i]
					bads = append(bads, b)
				}
				for i := 0; i < len(in); i++ {
					b := append([]int{}, in[:i+1]...)
					b = append(b, in[i:]...)
					bads = append(bads, b)
				}
				for _, b := range bads {
					input := make([][]byte, len(b))
					for i, x := range b {
						input[i] = u.keys[x]
					}
					// whatever the iterator decides per key (a delete or keep decision never reaches LMDB's own order check)
					for _, md := range []dec{replace, del, keep} {
						md := md
						res := run(u, "IterUpdate", st, input, func([]byte) dec { return md }, func([]byte) dec { return keep })
						part.Executions++
						part.Transitions += int64(len(st) + len(b))
						if res.err == nil {
							r.Violate(part.Name, "ill-ordered-input-accepted", fmt.Sprintf("%s/IterUpdate stored=%v input order %v (merge decision %d for every key) accepted", u.name, st, b, md), map[string]any{"universe": u.name, "stored": st, "input": b, "decision": int(md)})
						} else {
							outcomes["rejected"] = true
						}
					}
				}
			}
		}
	}

	// (5) a strategy call on another LMDB environment of the same process (one Syncer per database) between any two
	// steps of this one: same result as undisturbed, and the other call gets its own right result every time
	{
		env2 := world.NewEnv(16 << 20)
		otherKeys := [][]byte{[]byte("o1"), []byte("o2"), []byte("o3")}
		otherRuns, otherBad := 0, 0
		other := func() {
			otherRuns++
			var content []string
			var oerr error
			_ = env2.Update(func(txn *lmdb.Txn) error {
				dbi, err := txn.OpenDBI("other", lmdb.Create)
				if err != nil {
					return err
				}
				must(txn.Put(dbi, []byte("o0"), []byte("So0"), 0))
				must(txn.Put(dbi, []byte("o2"), []byte("So2"), 0))
				it := &sit{keys: otherKeys, mdec: func([]byte) dec { return replace }, cdec: func([]byte) dec { return del }, merges: map[string][][]byte{}}
				oerr = strategy.IterUpdate(txn, dbi, it)
				c, _ := txn.OpenCursor(dbi)
				defer c.Close()
				for f := uint(lmdb.First); ; f = lmdb.Next {
					k, v, err := c.Get(nil, nil, f)
					if err != nil {
						break
					}
					content = append(content, string(k)+"="+string(v))
				}
				return errRollback
			})
			if oerr != nil || strings.Join(content, ",") != "o1=No1,o2=No2,o3=No3" {
				otherBad++
				r.Violate(part.Name, "interleaved-strategy-calls-disturb-each-other", fmt.Sprintf("IterUpdate on a second environment, run between two steps of another strategy call: err=%v content=%v", oerr, content), nil)
			}
		}
		for _, u := range unis {
			u.keys = u.keys[:4]
			subs := subsets(4)
			for _, strat := range []string{"Update", "IterUpdate"} {
				for _, st := range subs {
					for _, in := range subs {
						input := make([][]byte, len(in))
						for i, x := range in {
							input[i] = u.keys[x]
						}
						md := func(k []byte) dec { return dec(pos(u, k) % 3) }
						cd := func(o []byte) dec { return dec((pos(u, o[1:]) + 1) % 3) }
						plain := run(u, strat, st, input, md, cd)
						var res result
						func() {
							// same call, with the other environment's call at every Next
							err := env.Update(func(txn *lmdb.Txn) error {
								dbi, err := txn.OpenDBI("u_"+u.name, lmdb.Create|u.flags)
								if err != nil {
									return err
								}
								for _, i := range st {
									must(txn.Put(dbi, u.keys[i], storedVal(u.keys[i]), 0))
								}
								it := &sit{keys: input, mdec: md, cdec: cd, merges: map[string][][]byte{}, during: other}
								if strat == "Update" {
									res.err = strategy.Update(txn, dbi, it)
								} else {
									res.err = strategy.IterUpdate(txn, dbi, it)
								}
								res.content = map[string]string{}
								c, _ := txn.OpenCursor(dbi)
								defer c.Close()
								for f := uint(lmdb.First); ; f = lmdb.Next {
									k, v, err := c.Get(nil, nil, f)
									if err != nil {
										break
									}
									res.content[string(k)] = string(v)
								}
								return errRollback
							})
							if err != errRollback {
								ev.Fatal("harness txn: %v", err)
							}
						}()
						part.Executions++
						part.Transitions += int64(len(in) + 1)
						if fmt.Sprint(plain.err) != fmt.Sprint(res.err) || fmt.Sprint(plain.content) != fmt.Sprint(res.content) {
							r.Violate(part.Name, "interleaved-strategy-calls-disturb-each-other", fmt.Sprintf("%s/%s stored=%v input=%v: undisturbed err=%v content=%v; with a call on another environment in between err=%v content=%v", u.name, strat, st, in, plain.err, plain.content, res.err, res.content), map[string]any{"universe": u.name, "strategy": strat, "stored": st, "input": in})
						}
					}
				}
			}
		}
		env2.Destroy()
		outcomes[fmt.Sprintf("interleaved:%v/%d", otherRuns > 0, otherBad)] = true
	}

	// (4) EmptyPut on a dupsort DBI keeps duplicates
	{
		var got []string
		err := env.Update(func(txn *lmdb.Txn) error {
			dbi, err := txn.OpenDBI("dups", lmdb.Create|lmdb.DupSort)
			if err != nil {
				return err
			}
			must(txn.Put(dbi, []byte("old"), []byte("x"), 0))
			it := &dupIt{kvs: [][2]string{{"a", "1"}, {"a", "2"}, {"b", ""}, {"b", "1"}, {"c", "3"}}}
			if err := strategy.EmptyPut(txn, dbi, it); err != nil {
				return err
			}
			c, _ := txn.OpenCursor(dbi)
			defer c.Close()
			for f := uint(lmdb.First); ; f = lmdb.Next {
				k, v, err := c.Get(nil, nil, f)
				if err != nil {
					break
				}
				got = append(got, string(k)+"="+string(v))
			}
			return errRollback
		})
		part.Executions++
		if err != errRollback || strings.Join(got, ",") != "a=1,a=2,b=1,c=3" {
			r.Violate(part.Name, "emptyput-dupsort", fmt.Sprintf("err=%v content=%v", err, got), nil)
		}
	}

	part.States = part.Executions
	part.Distinct = int64(len(outcomes))
	part.Bound = "universes bytes{00,a,a00,ab,b,511xk,ff} / 4-byte ints{0,1,255,256,2^31,2^32-1} / 8-byte ints{0,1,2^32,2^63+1} (quick: 5 keys each): all stored subsets x all input subsets x 9 decision patterns (x9 clean patterns for IterUpdate); exhaustive 3^4 per-key decisions on 4-key sub-universes; every adjacent transposition and duplicate as ill-ordered input"
	part.Samples = []any{
		map[string]any{"universe": "int4", "strategy": "IterUpdate", "stored": []int{1, 3}, "input": []int{0, 3, 5}, "decisions": "rot1/rot2"},
		map[string]any{"universe": "bytes", "strategy": "Update", "stored": []int{0, 2}, "input": []int{2, 4}, "decisions": "code17"},
	}
	r.AddPart(part)
	r.Finish()
}

type dupIt struct {
	kvs [][2]string
	cur int
}

func (d *dupIt) Next() ([]byte, error) {
	if d.cur >= len(d.kvs) {
		return nil, io.EOF
	}
	d.cur++
	return []byte(d.kvs[d.cur-1][0]), nil
}
func (d *dupIt) Merge(old []byte) ([]byte, error) { return []byte(d.kvs[d.cur-1][1]), nil }
func (d *dupIt) Clean(old []byte) ([]byte, error) { return nil, nil }

func must(err error) {
	if err != nil {
		panic(err)
	}
}
