// c17race is the auxiliary free-running pass of C17: the bodies of the
// concurrent scenarios run with real timers and real scheduling under the Go
// race detector (hooks pass through). It is sampling, not exhaustive, and is
// reported as such. Build: go build -race -tags verif.
package main

import (
	"bytes"
	"compress/gzip"
	"context"
	"flag"
	"fmt"
	"os"
	"sync"
	"time"

	"github.com/PowerDNS/lightningstream/config"
	"github.com/PowerDNS/lightningstream/snapshot"
	"github.com/PowerDNS/lightningstream/snapshot/storage"
	"github.com/PowerDNS/lightningstream/syncer"
	"github.com/PowerDNS/lightningstream/syncer/events"
	"github.com/PowerDNS/lightningstream/utils/climit"
	"github.com/PowerDNS/lightningstream/utils/topics"
	"github.com/PowerDNS/lmdb-go/lmdb"

	"verif/lib/inst"
	"verif/lib/world"
)

func tweak(c *config.Config, lc *config.LMDB) {
	c.LMDBPollInterval = 2 * time.Millisecond
	c.StoragePollInterval = 2 * time.Millisecond
	c.StorageRetryInterval = 2 * time.Millisecond
	c.StorageForceSnapshotInterval = 40 * time.Millisecond
	c.MemoryDownloadedSnapshots = 1
	c.MemoryDecompressedSnapshots = 1
}

var truncated, garbagePB = func() ([]byte, []byte) {
	msg := &snapshot.Snapshot{FormatVersion: 3, CompatVersion: 1}
	d := snapshot.NewDBISize(1 << 16)
	d.SetName("d")
	for i := 0; i < 500; i++ {
		d.Append(snapshot.KV{Key: []byte(fmt.Sprintf("key%05d", i*7919%100000)), Value: []byte(fmt.Sprintf("value-%d-%d", i, i*i)), TimestampNano: uint64(i + 1)})
	}
	msg.Databases = append(msg.Databases, d)
	data, _, err := snapshot.DumpData(msg)
	if err != nil {
		panic(err)
	}
	var gb bytes.Buffer
	zw := gzip.NewWriter(&gb)
	_, _ = zw.Write(bytes.Repeat([]byte{0xff, 0x07, 0x80}, 400))
	_ = zw.Close()
	return data[:len(data)/2], gb.Bytes()
}()

func round(native bool, dur time.Duration) {
	b := world.NewBucket()
	ctx, cancel := context.WithCancel(context.Background())
	var wg sync.WaitGroup
	var insts []*inst.Inst
	for _, name := range []string{"a", "b", "c"} {
		ev := events.New()
		o := inst.Opt{Native: native, Tweak: tweak, DupSortHack: !native,
			Cleanup:   &config.Cleanup{Enabled: true, Interval: 3 * time.Millisecond, MustKeepInterval: 0, RemoveOldInstancesInterval: 20 * time.Millisecond},
			Sweeper:   &config.Sweeper{Enabled: true, RetentionDays: 1e-7, Interval: 5 * time.Millisecond, FirstInterval: 3 * time.Millisecond, LockDuration: time.Millisecond, ReleaseDuration: time.Millisecond},
			SyncerOpt: &syncer.Options{Events: ev}}
		i := inst.New(name, b, o)
		insts = append(insts, i)
		// event subscribers that come and go
		wg.Add(1)
		go func() {
			defer wg.Done()
			for ctx.Err() == nil {
				sub := ev.UpdateLoaded.Subscribe(false)
				sctx, c2 := context.WithTimeout(ctx, 3*time.Millisecond)
				_, _ = sub.Next(sctx)
				c2()
				sub.Close()
				go sub.Close()
			}
		}()
		wg.Add(1)
		go func() {
			defer wg.Done()
			_ = ev.UpdateStored.Handle(ctx, func(events.UpdateInfo) error { return nil })
		}()
		// the application
		wg.Add(1)
		go func(i *inst.Inst, name string) {
			defer wg.Done()
			n := 0
			for ctx.Err() == nil {
				n++
				i.AppTxn(func(txn *lmdb.Txn) error {
					k := []byte(fmt.Sprintf("k%d", n%5))
					if native {
						inst.NativePut(txn, "d", k, uint64(time.Now().UnixNano()), n%4 == 0, []byte(name))
					} else if n%4 == 0 {
						inst.PlainDel(txn, "d", 0, k, nil)
					} else {
						inst.PlainPut(txn, "d", 0, k, []byte(name))
					}
					if !native {
						// a duplicate-keys DBI (dupsort hack enabled in shadow rounds)
						inst.PlainPut(txn, "dups", lmdb.DupSort, k, []byte(fmt.Sprintf("%s%d", name, n%7)))
					}
					return nil
				})
				time.Sleep(time.Millisecond)
			}
		}(i, name)
		wg.Add(1)
		go func(i *inst.Inst) {
			defer wg.Done()
			_ = i.S.Sync(ctx)
		}(i)
	}
	// a foreign instance whose snapshots are undecodable, appear continuously and vanish again: the downloaders'
	// error paths (MarkCorrupt, token release, retries) run concurrently with the receivers' polls
	wg.Add(1)
	go func() {
		defer wg.Done()
		var prev string
		for n := 0; ctx.Err() == nil; n++ {
			name := snapshot.Name(inst.DBName, "x", "GX", time.Now())
			switch n % 3 {
			case 0:
				b.Put(name, []byte("\x1f\x8b not a snapshot")) // fails at the gzip header
			case 1:
				b.Put(name, truncated) // a valid gzip stream cut in the middle: fails while decompressing
			default:
				b.Put(name, garbagePB) // decompresses, but is not a snapshot message
			}
			if prev != "" && n%3 == 0 {
				b.Remove(prev)
			}
			prev = name
			time.Sleep(time.Millisecond)
		}
	}()
	// global storage handle: getters before and after the setter
	storage.VerifResetGlobal()
	for g := 0; g < 3; g++ {
		wg.Add(1)
		go func() { defer wg.Done(); _ = storage.GetGlobal(); _ = storage.IsReady() }()
	}
	time.Sleep(time.Millisecond)
	storage.SetGlobal(b)
	// token limit: tokens released from several goroutines, several times
	cl := climit.New("racedb", "race", 2, nil)
	for g := 0; g < 4; g++ {
		wg.Add(1)
		go func() {
			defer wg.Done()
			for ctx.Err() == nil {
				t := cl.Acquire()
				var w2 sync.WaitGroup
				for k := 0; k < 2; k++ {
					w2.Add(1)
					go func() { defer w2.Done(); t.Release() }()
				}
				t.Release()
				w2.Wait()
			}
		}()
	}
	// a topic with a fast publisher and subscribers closing while events are delivered
	tp := topics.New[int]()
	wg.Add(1)
	go func() {
		defer wg.Done()
		for n := 0; ctx.Err() == nil; n++ {
			tp.Publish(n)
			_, _ = tp.Last()
		}
	}()
	for g := 0; g < 2; g++ {
		wg.Add(1)
		go func() {
			defer wg.Done()
			for ctx.Err() == nil {
				sub := tp.Subscribe(g == 0)
				sctx, c2 := context.WithTimeout(ctx, time.Millisecond)
				_, _ = sub.Next(sctx)
				c2()
				sub.Close()
			}
		}()
	}
	time.Sleep(dur)
	cancel()
	done := make(chan struct{})
	go func() { wg.Wait(); close(done) }()
	select {
	case <-done:
	case <-time.After(20 * time.Second):
		fmt.Println("HANG: goroutines did not stop within 20 s after cancellation")
		os.Exit(3)
	}
	time.Sleep(20 * time.Millisecond)
	for _, i := range insts {
		i.Destroy()
	}
}

func main() {
	rounds := flag.Int("rounds", 4, "rounds per mode")
	dur := flag.Duration("dur", 300*time.Millisecond, "duration of a round")
	flag.Parse()
	defer world.Cleanup()
	for n := 0; n < *rounds; n++ {
		round(true, *dur)
		round(false, *dur)
	}
	fmt.Printf("RACEPASS rounds=%d\n", 2**rounds)
}
