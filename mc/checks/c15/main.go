// C15 — snapshot names round-trip and sort chronologically.
// Engine E1: bounded-exhaustive enumeration of name components and parser inputs.
package main

import (
	"context"
	"flag"
	"fmt"
	"reflect"
	"regexp"
	"sort"
	"strings"
	"time"

	"github.com/PowerDNS/lightningstream/config"
	"github.com/PowerDNS/lightningstream/snapshot"
	"github.com/PowerDNS/lightningstream/syncer"
	"github.com/PowerDNS/lightningstream/syncer/cleaner"
	"github.com/PowerDNS/lightningstream/syncer/events"
	"github.com/PowerDNS/lightningstream/syncer/hooks"
	"github.com/PowerDNS/lightningstream/syncer/receiver"
	"github.com/sirupsen/logrus"

	"verif/lib/ev"
	"verif/lib/world"
)

func strs(alpha []string, maxLen int) []string {
	var out []string
	var rec func(cur string, n int)
	rec = func(cur string, n int) {
		if n > 0 {
			out = append(out, cur)
		}
		if n == maxLen {
			return
		}
		for _, a := range alpha {
			rec(cur+a, n+1)
		}
	}
	rec("", 0)
	return out
}

func timestamps() []time.Time {
	base := []time.Time{
		time.Unix(0, 0).UTC(),
		time.Unix(0, 999999999).UTC(),
		time.Unix(1, 0).UTC(),
		time.Date(1999, 12, 31, 23, 59, 59, 999999999, time.UTC),
		time.Date(2000, 2, 29, 0, 0, 0, 0, time.UTC),
		time.Date(2009, 12, 31, 23, 59, 59, 999999999, time.UTC),
		time.Date(2038, 1, 19, 3, 14, 8, 0, time.UTC),
		time.Date(2099, 9, 9, 9, 9, 9, 99, time.UTC),
		time.Unix(0, 1<<63-1).UTC(), // 2262-04-11T23:47:16.854775807
	}
	seen := map[int64]bool{}
	var out []time.Time
	for _, b := range base {
		for _, d := range []int64{-1, 0, 1, 1000, -1000, 100000000, -100000000} {
			n := b.UnixNano()
			if (d > 0 && n > 1<<63-1-d) || (d < 0 && n < -d) {
				continue
			}
			n += d
			if !seen[n] {
				seen[n] = true
				out = append(out, time.Unix(0, n).UTC())
			}
		}
	}
	sort.Slice(out, func(i, j int) bool { return out[i].Before(out[j]) })
	return out
}

func main() {
	flag.Parse()
	if v, ok := ev.ReplayRequested(); ok {
		fmt.Printf("  this check enumerates inputs; the replay artefact names the failing input directly: %v\n", v.Replay)
		return
	}
	r := ev.Start("C15")
	defer r.RecoverMain()
	defer world.Cleanup()
	r.Assume("timestamps restricted to 1970..2262 (int64 nanoseconds), names over the documented safe alphabet",
		"simpleblob listings are sorted byte-wise (contract of simpleblob.BlobList.Sort)")

	safe := strs([]string{"a", "Z", "0", "-"}, ev.Pick(r, 2, 3))
	tss := timestamps()
	extras := []snapshot.NameExtra{nil, {"X1"}, {"X1", "Y"}, {"Ya-b"}, {"Y", "X1"}, {"S000042", "B000040"}} // incl. items that are not in alphabetical order
	gens := []string{"GX", "G-0"}
	zones := []*time.Location{time.UTC, time.FixedZone("+0545", 5*3600+45*60), time.FixedZone("-0930", -(9*3600 + 30*60)), time.FixedZone("+1400", 14*3600)}

	// --- part 1: round trip + injectivity + chronological order ---
	p1 := &ev.Part{Name: "roundtrip-order-injective", Engine: "E1", Exhaustive: true}
	built := map[string]string{} // name -> component tuple
	classes := map[string]bool{}
	for _, db := range safe {
		for _, inst := range safe {
			for gi, gen := range gens {
				for ei, extra := range extras {
					if (gi > 0 || ei > 0) && (len(db) > 1 || len(inst) > 1) {
						continue // extras/generations only with the short names
					}
					var prevName string
					var prevTS time.Time
					for ti, ts := range tss {
						// the same instant expressed in different time zones (the process's local zone is not always UTC)
						zone := zones[ti%len(zones)]
						given := append(snapshot.NameExtra{}, extra...) // the caller's own slice: building a name must not touch it
						ni := snapshot.NameInfo{Kind: snapshot.KindSnapshot, Extension: snapshot.DefaultExtension,
							SyncerName: db, InstanceID: inst, GenerationID: gen, Timestamp: ts.In(zone), Extra: given}
						name := ni.BuildName()
						if !reflect.DeepEqual(append(snapshot.NameExtra{}, given...), append(snapshot.NameExtra{}, extra...)) {
							r.Violate(p1.Name, "buildname-modifies-its-input", fmt.Sprintf("BuildName changed the caller's extra items from %v to %v", extra, given), map[string]any{"extra": extra.String()})
							copy(given, extra)
						}
						niu := ni
						niu.Timestamp = ts.UTC()
						if nu := niu.BuildName(); nu != name {
							r.Violate(p1.Name, "name-depends-on-time-zone", fmt.Sprintf("instant %d ns: name %q when the time value is in zone %s, %q in UTC", ts.UnixNano(), name, zone, nu), map[string]any{"name": name, "zone": zone.String()})
						}
						p1.Executions++
						p1.Transitions++
						tuple := fmt.Sprintf("%q|%q|%d|%q|%q", db, inst, ts.UnixNano(), gen, extra.String())
						if old, dup := built[name]; dup && old != tuple {
							r.Violate(p1.Name, "not-injective", fmt.Sprintf("%s and %s both build %q", old, tuple, name), map[string]any{"a": old, "b": tuple, "name": name})
						}
						built[name] = tuple
						got, err := snapshot.ParseName(name)
						if err != nil {
							r.Violate(p1.Name, "parse-built-name-error", fmt.Sprintf("ParseName(%q): %v", name, err), name)
							continue
						}
						if got.SyncerName != db || got.InstanceID != inst || got.GenerationID != gen ||
							!got.Timestamp.Equal(ts) || got.Kind != snapshot.KindSnapshot || got.Extension != snapshot.DefaultExtension ||
							got.FullName != name || !reflect.DeepEqual(append(snapshot.NameExtra{}, got.Extra...), append(snapshot.NameExtra{}, extra...)) {
							r.Violate(p1.Name, "roundtrip-mismatch", fmt.Sprintf("ParseName(BuildName(%s)) = %+v", tuple, got), map[string]any{"tuple": tuple, "name": name})
						}
						if ti > 0 {
							// same db, instance, generation, extra: byte order == time order
							if !(prevTS.Before(ts) && prevName < name) {
								r.Violate(p1.Name, "order-mismatch", fmt.Sprintf("ts %v < %v but names %q !< %q", prevTS, ts, prevName, name), map[string]any{"a": prevName, "b": name})
							}
						}
						prevName, prevTS = name, ts
						classes[fmt.Sprintf("%d/%d/%d/%d", len(db), len(inst), gi, ei)] = true
					}
				}
			}
		}
	}
	// cross (generation, extra): for one db+instance, different timestamps => name order = time order
	{
		type nt struct {
			name string
			ts   time.Time
		}
		var all []nt
		for _, gen := range gens {
			for _, extra := range extras {
				for _, ts := range tss {
					ni := snapshot.NameInfo{Extension: snapshot.DefaultExtension, SyncerName: "a", InstanceID: "b-", GenerationID: gen, Timestamp: ts, Extra: extra}
					all = append(all, nt{ni.BuildName(), ts})
				}
			}
		}
		for i := range all {
			for j := range all {
				p1.Transitions++
				if all[i].ts.Before(all[j].ts) && !(all[i].name < all[j].name) {
					r.Violate(p1.Name, "order-mismatch-cross", fmt.Sprintf("%q !< %q", all[i].name, all[j].name), map[string]any{"a": all[i].name, "b": all[j].name})
				}
			}
		}
	}
	p1.States = int64(len(built))
	p1.Distinct = int64(len(classes))
	p1.Bound = fmt.Sprintf("db,instance: all strings len<=%d over {a,Z,0,-}; %d timestamps; %d extras; %d generations", ev.Pick(r, 2, 3), len(tss), len(extras), len(gens))
	p1.Samples = []any{"default__a-__19700101-000000-000000001__GX.pb.gz"}
	for n := range built {
		p1.Samples = append(p1.Samples, n)
		if len(p1.Samples) > 3 {
			break
		}
	}
	r.AddPart(p1)

	// --- part 2: parser on mutated names never misattributes ---
	p2 := &ev.Part{Name: "parser-mutations", Engine: "E1", Exhaustive: true}
	baseNames := []string{}
	for _, db := range []string{"a", "a-", "db-1"} {
		for _, inst := range []string{"b", "-", "i-2"} {
			for _, ts := range []time.Time{tss[0], tss[len(tss)/2], tss[len(tss)-1]} {
				for _, extra := range extras[:2] {
					ni := snapshot.NameInfo{Extension: snapshot.DefaultExtension, SyncerName: db, InstanceID: inst, GenerationID: "GX", Timestamp: ts, Extra: extra}
					baseNames = append(baseNames, ni.BuildName())
				}
			}
		}
	}
	outcomes := map[string]bool{}
	repl := []byte{'_', '.', '-', '0', 'a', '/', ' ', 0}
	for _, name := range baseNames {
		var muts []string
		for i := 0; i <= len(name); i++ {
			if i < len(name) {
				muts = append(muts, name[:i]+name[i+1:])           // delete
				muts = append(muts, name[:i]+name[i:i+1]+name[i:]) // duplicate
				for _, c := range repl {
					muts = append(muts, name[:i]+string(c)+name[i+1:]) // replace
				}
			}
			muts = append(muts, name[:i]) // truncate
		}
		for _, ext := range []string{"", ".pb", ".gz", ".pb.gz.tmp", ".PB.GZ", ".update"} {
			muts = append(muts, strings.TrimSuffix(name, ".pb.gz")+ext)
		}
		// structural mutations: every "__"-separated field cut to every length, lengthened, dropped or doubled
		// (e.g. a timestamp written without its nanosecond part)
		stem, ext := strings.TrimSuffix(name, ".pb.gz"), ".pb.gz"
		fields := strings.Split(stem, "__")
		join := func(fs []string) string { return strings.Join(fs, "__") + ext }
		for fi, f := range fields {
			for l := 0; l <= len(f); l++ {
				fs := append([]string{}, fields...)
				fs[fi] = f[:l]
				muts = append(muts, join(fs))
				fs[fi] = f[l:]
				muts = append(muts, join(fs))
			}
			fs := append([]string{}, fields...)
			fs[fi] = f + "0"
			muts = append(muts, join(fs))
			muts = append(muts, join(append(append([]string{}, fields[:fi]...), fields[fi+1:]...)))
			muts = append(muts, join(append(append(append([]string{}, fields[:fi+1]...), f), fields[fi+1:]...)))
		}
		for _, m := range muts {
			p2.Executions++
			p2.Transitions++
			var got snapshot.NameInfo
			var err error
			panicked := !r.Guard(p2.Name, "panic-in-parsename", map[string]any{"name": m}, func() { got, err = snapshot.ParseName(m) })
			if panicked {
				continue
			}
			if err != nil {
				outcomes["error"] = true
				continue
			}
			outcomes["ok"] = true
			// Accepted: it must be self-consistent, i.e. rebuilding yields the same name,
			// and the components must not contain the separators.
			if got.BuildName() != m {
				r.Violate(p2.Name, "accepted-name-not-canonical", fmt.Sprintf("ParseName(%q) ok but rebuilds to %q", m, got.BuildName()), m)
			}
			if strings.Contains(got.SyncerName, "__") || strings.Contains(got.InstanceID, "__") || strings.Contains(got.InstanceID, ".") {
				r.Violate(p2.Name, "accepted-component-with-separator", fmt.Sprintf("ParseName(%q) = %+v", m, got), m)
			}
			if !strings.HasPrefix(m, got.SyncerName+"__"+got.InstanceID+"__") {
				r.Violate(p2.Name, "accepted-prefix-mismatch", fmt.Sprintf("ParseName(%q) = %+v", m, got), m)
			}
		}
	}
	p2.States = int64(len(baseNames))
	p2.Distinct = int64(len(outcomes))
	p2.Bound = "every single-character deletion/duplication/replacement/truncation and extension change of 54 built names; every field cut to every prefix and suffix length, lengthened, dropped and doubled; a panic is a violation"
	p2.Samples = []any{baseNames[0], baseNames[len(baseNames)-1]}
	r.AddPart(p2)

	// --- part 3: sanitiser ---
	p3 := &ev.Part{Name: "instance-sanitiser", Engine: "E1", Exhaustive: true}
	rawAlpha := []string{"a", "-", "_", ".", "/", " ", "é", "\x00"}
	raws := strs(rawAlpha, 3)
	reSafe := regexp.MustCompile(`^[A-Za-z0-9-]+$`)
	sanOut := map[string]bool{}
	for _, raw := range raws {
		c := config.Config{Instance: raw}
		s, err := syncer.New("db", nil, nil, c, config.LMDB{SchemaTracksChanges: true}, syncer.Options{})
		p3.Executions++
		p3.Transitions++
		if err != nil {
			r.Violate(p3.Name, "sanitiser-new-error", fmt.Sprintf("New with instance %q: %v", raw, err), raw)
			continue
		}
		id := s.VerifInstanceID()
		sanOut[id] = true
		if !reSafe.MatchString(id) {
			r.Violate(p3.Name, "sanitiser-unsafe-output", fmt.Sprintf("instance %q sanitised to %q", raw, id), raw)
		}
		// and the sanitised name survives the name round trip
		ni := snapshot.NameInfo{Extension: snapshot.DefaultExtension, SyncerName: "db", InstanceID: id, GenerationID: "GX", Timestamp: tss[3]}
		got, err := snapshot.ParseName(ni.BuildName())
		if err != nil || got.InstanceID != id || got.SyncerName != "db" {
			r.Violate(p3.Name, "sanitised-name-roundtrip", fmt.Sprintf("instance %q -> %q: parse %+v err %v", raw, id, got, err), raw)
		}
	}
	p3.States = int64(len(sanOut))
	p3.Distinct = int64(len(sanOut))
	p3.Bound = fmt.Sprintf("all %d raw instance names of length<=3 over {a,-,_,.,/,space,é,NUL}", len(raws))
	p3.Samples = []any{"a_.", "é/a"}
	r.AddPart(p3)

	// --- part 4: listings through the real receiver and cleaner ---
	p4 := &ev.Part{Name: "listing-filter-and-newest", Engine: "E1", Exhaustive: true}
	dbs := []string{"d", "d-", "d-x", "dd", "D"}
	foreign := []string{"d", "d__", "d__a", "d__a__", "d__a__20200101-000000-000000000", "d__a__20200101-000000-000000000__GX",
		"d__a__20200101-000000-000000000__GX.txt", "d__a__2020010-000000-000000000__GX.pb.gz", "d__a__20200101x000000-000000000__GX.pb.gz",
		"d_a__20200101-000000-000000000__GX.pb.gz", "README", ".pb.gz", "d__a__20200101-000000-0000000000__GX.pb.gz"}
	insts := []string{"a", "b", "a-"}
	// a second registered file kind (as extensions register them): such files are not snapshots
	snapshot.RegisterExtension("delta.gz", "delta")
	ctx, cancel := context.WithCancel(context.Background())
	l := logrus.New()
	l.SetLevel(logrus.PanicLevel)
	listClasses := map[string]bool{}
	// subsets of timestamps per instance: choose 0..2 snapshots per (db,instance) from 3 timestamps
	tsPick := []time.Time{tss[2], tss[len(tss)/2], tss[len(tss)-2]}
	subsets := [][]int{{}, {0}, {2}, {0, 1}, {1, 2}, {0, 1, 2}}
	nThis := 0
	for _, own := range dbs {
		for si, sub := range subsets {
			for sj, sub2 := range subsets {
				if !r.Thorough() && (si+sj)%2 == 1 {
					continue
				}
				b := world.NewBucket()
				expect := map[string]time.Time{} // instance -> newest ts for db `own`
				ownNames := map[string]bool{}
				for di, db := range dbs {
					for ii, inst := range insts {
						pick := sub
						if (di+ii)%2 == 1 {
							pick = sub2
						}
						for _, k := range pick {
							ni := snapshot.NameInfo{Extension: snapshot.DefaultExtension, SyncerName: db, InstanceID: inst, GenerationID: "GX", Timestamp: tsPick[k]}
							n := ni.BuildName()
							b.Put(n, []byte("not a gzip"))
							if db == own {
								ownNames[n] = true
								if tsPick[k].After(expect[inst]) {
									expect[inst] = tsPick[k]
								}
							}
						}
					}
				}
				// files of the other kind, newer than every snapshot, for every instance of every database
				for _, db := range dbs {
					for _, inst := range insts {
						ni := snapshot.NameInfo{Kind: "delta", Extension: "delta.gz", SyncerName: db, InstanceID: inst, GenerationID: "GX", Timestamp: tss[len(tss)-1]}
						b.Put(ni.BuildName(), []byte("x"))
					}
				}
				for _, f := range foreign {
					b.Put(f, []byte("x"))
					b.Put(strings.Replace(f, "d", own, 1), []byte("x"))
				}
				// receiver: collect what it considers the newest per instance
				evs := events.New()
				sub := evs.LastSeenSnapshotByInstance.Subscribe(true)
				c := config.Config{MemoryDownloadedSnapshots: 1, MemoryDecompressedSnapshots: 1, StorageRetryInterval: time.Hour}
				rc := receiver.New(b, c, own, l, "self", evs, hooks.New())
				done := make(chan map[string]snapshot.NameInfo, 1)
				go func() { m, _ := sub.Next(ctx); done <- m }()
				if err := rc.RunOnce(ctx, true); err != nil {
					ev.Fatal("RunOnce: %v", err)
				}
				last := <-done
				sub.Close()
				p4.Executions++
				p4.Transitions += int64(len(b.Names()))
				nThis++
				got := map[string]time.Time{}
				for inst, ni := range last {
					got[inst] = ni.Timestamp
					if !ownNames[ni.FullName] {
						r.Violate(p4.Name, "receiver-foreign-file-as-snapshot", fmt.Sprintf("db %q: receiver took %q for a snapshot of instance %q", own, ni.FullName, inst), map[string]any{"db": own, "names": b.Names()})
					}
				}
				for inst, ts := range expect {
					if !got[inst].Equal(ts) {
						r.Violate(p4.Name, "receiver-newest-wrong", fmt.Sprintf("db %q instance %q: newest should be %v, receiver chose %v", own, inst, ts, got[inst]), map[string]any{"db": own, "names": b.Names()})
					}
				}
				if len(got) != len(expect) {
					r.Violate(p4.Name, "receiver-instance-set-wrong", fmt.Sprintf("db %q: expected instances %v, got %v", own, expect, got), map[string]any{"db": own, "names": b.Names()})
				}
				listClasses[fmt.Sprintf("%s/%d/%d", own, len(expect), len(ownNames))] = true

				// cleaner: with zero keep interval it deletes all but the newest per instance, and only own db snapshots
				cl := cleaner.New(own, b, config.Cleanup{Enabled: true, MustKeepInterval: 0, RemoveOldInstancesInterval: 1000000 * time.Hour}, l)
				now := time.Unix(0, 1<<62)
				_ = cl.RunOnce(ctx, now)
				_ = cl.RunOnce(ctx, now.Add(time.Second))
				for _, call := range b.Calls() {
					if call.Op == "delete" && !ownNames[call.Name] {
						r.Violate(p4.Name, "cleaner-deleted-foreign-file", fmt.Sprintf("db %q: cleaner deleted %q", own, call.Name), map[string]any{"db": own, "names": b.Names()})
					}
				}
				for inst, ts := range expect {
					ni := snapshot.NameInfo{Extension: snapshot.DefaultExtension, SyncerName: own, InstanceID: inst, GenerationID: "GX", Timestamp: ts}
					if _, ok := b.Get(ni.BuildName()); !ok {
						r.Violate(p4.Name, "cleaner-deleted-newest", fmt.Sprintf("db %q: newest snapshot of %q deleted", own, inst), map[string]any{"db": own})
					}
				}
			}
		}
	}
	cancel()
	p4.States = int64(nThis)
	p4.Distinct = int64(len(listClasses))
	p4.Bound = fmt.Sprintf("%d own-db names (prefixes/extensions of each other) x subsets of 3 timestamps per (db,instance) x %d foreign object names", len(dbs), 2*len(foreign))
	p4.Samples = []any{map[string]any{"own": "d-", "listing": []string{"d__a__...", "d-__a__...", "d-x__a__...", "README"}}}
	r.AddPart(p4)

	r.Finish()
}
