// C16 — every instance's newest snapshot is eventually delivered, within memory limits.
// Engine E3: receiver scenario (real Receiver.Run, downloaders, token limits; consumer
// thread; faults, corrupt blobs, vanishing and newly published snapshots) and the
// run-once variant of the sync-loop scenario.
package main

import (
	"encoding/json"
	"flag"
	"fmt"
	"os"
	"runtime/pprof"
	"strings"
	"time"

	"verif/lib/ev"
	"verif/lib/explore"
	"verif/lib/loopworld"
	"verif/lib/par"
	"verif/lib/recvworld"
	"verif/lib/world"
	"verif/lib/xrun"
)

func runRecv(param json.RawMessage, ctx *explore.Ctx, viols *[]xrun.Viol) string {
	var cfg recvworld.Cfg
	_ = json.Unmarshal(param, &cfg)
	res := recvworld.Run(cfg, ctx)
	for _, v := range res.Viols {
		*viols = append(*viols, xrun.Viol{Sig: v.Sig, Msg: v.Msg})
	}
	return res.Outcome
}

func runOnce(param json.RawMessage, ctx *explore.Ctx, viols *[]xrun.Viol) string {
	var cfg loopworld.Cfg
	_ = json.Unmarshal(param, &cfg)
	res := loopworld.Run(cfg, ctx)
	for _, v := range res.Viols {
		if !loopworld.Judged(v.Sig, "c16") {
			continue
		}
		*viols = append(*viols, xrun.Viol{Sig: v.Sig, Msg: v.Msg})
	}
	return fmt.Sprintf("%s/loads=%d", res.Outcome, res.Loads)
}

func main() {
	flag.Parse()
	par.ServeIfWorker(map[string]par.Handler{"recv": xrun.Handler(runRecv), "once": xrun.Handler(runOnce)})
	if v, ok := ev.ReplayRequested(); ok {
		if strings.HasPrefix(v.Part, "run-once") {
			xrun.Replay(v, runOnce)
		} else {
			xrun.Replay(v, runRecv)
		}
		return
	}
	if os.Getenv("VERIF_DEBUG") != "" {
		cfg := recvworld.Cfg{DownloadLimit: 1, DecompressLimit: 1, Instances: []string{"b", "c"}, Corrupt: []string{"b:newest"}, Faults: true, Publish: true, Vanish: true, Polls: 2}
		if os.Getenv("VERIF_PROF") != "" {
			f, _ := os.Create("/tmp/c16.prof")
			pprof.StartCPUProfile(f)
			for i := 0; i < 40; i++ {
				recvworld.Run(cfg, explore.NewCtx(nil))
			}
			pprof.StopCPUProfile()
			f.Close()
			return
		}
		ctx := explore.NewCtx(nil)
		t0 := time.Now()
		res := recvworld.Run(cfg, ctx)
		fmt.Printf("outcome=%s steps=%d viols=%v delivered=%v t=%v\n", res.Outcome, res.Steps, res.Viols, res.Delivered, time.Since(t0))
		for i, st := range ctx.Trace {
			fmt.Printf("%3d %-44s options=%v\n", i, st.Label, st.Options)
		}
		return
	}
	r := ev.Start("C16")
	defer r.RecoverMain()
	defer world.Cleanup()
	r.SetBudget(ev.Pick(r, 1300*time.Second, 40*time.Minute))
	r.Assume("bounded liveness: after the explored part of an execution, faults stop, in-progress work completes and two more storage polls fire (closing phase); then the newest decodable snapshot of every other instance must have been returned by Next()",
		"re-delivery of an older or already delivered snapshot is not a violation (merging is idempotent)",
		"memory limits are read from the lightningstream_climit_active gauge at every quiescent point")
	bound := ev.Pick(r, 2, 3)
	type rc struct {
		name string
		cfg  recvworld.Cfg
	}
	runs := []rc{
		{"recv-limits-1-1", recvworld.Cfg{DownloadLimit: 1, DecompressLimit: 1, Instances: []string{"b", "c"}, Faults: true, Polls: 1}},
		{"recv-corrupt-newest", recvworld.Cfg{DownloadLimit: 1, DecompressLimit: 1, Instances: []string{"b", "c"}, Corrupt: []string{"b:newest"}, Polls: 1}},
		{"recv-corrupt-both-limit2", recvworld.Cfg{DownloadLimit: 2, DecompressLimit: 2, Instances: []string{"b", "c"}, Corrupt: []string{"b:newest", "c:only"}, Polls: 1}},
		// an instance whose only snapshot is cleaned while its download keeps failing, and which publishes again later
		{"recv-instance-disappears-and-returns", recvworld.Cfg{DownloadLimit: 2, DecompressLimit: 2, Instances: []string{"b", "c"}, Single: []string{"c"}, Faults: true, Vanish: true, Republish: true,
			Script: []string{"dl:c@st.load=fail", "newest-of-c-cleaned"}, Polls: 3}},
		{"recv-publish-vanish", recvworld.Cfg{DownloadLimit: 2, DecompressLimit: 1, Instances: []string{"b", "c"}, Publish: true, Vanish: true, Polls: ev.Pick(r, 1, 2)}},
		// the merge loop is busy: delivered snapshots stay pending in the receiver while a newer, undecodable blob of the
		// same instance comes and goes (the pending snapshot is downloaded again and replaces itself)
		{"recv-pending-superseded-by-itself", recvworld.Cfg{DownloadLimit: 2, DecompressLimit: 2, Instances: []string{"b"}, LateConsumer: true, PublishCorrupt: true, Publish: true, Polls: 3}},
		// a cleaner removes a superseded snapshot while another instance publishes: the listing keeps its length and its last name
		{"recv-publish-while-older-cleaned", recvworld.Cfg{DownloadLimit: 1, DecompressLimit: 1, Instances: []string{"b", "c"}, Publish: true, CleanOlder: true, Polls: 2}},
	}
	if r.Thorough() {
		runs = append(runs,
			rc{"recv-3-instances", recvworld.Cfg{DownloadLimit: 1, DecompressLimit: 2, Instances: []string{"b", "c", "d"}, Corrupt: []string{"c:older"}, Faults: true, Publish: true, Polls: 2}},
			rc{"recv-corrupt-older", recvworld.Cfg{DownloadLimit: 2, DecompressLimit: 1, Instances: []string{"b", "c"}, Corrupt: []string{"b:older", "c:newest"}, Faults: true, Vanish: true, Polls: 2}})
	}
	for ri, rn := range runs {
		if r.Expired() {
			r.AddPart(&ev.Part{Name: rn.name, Engine: "E3", Exhaustive: false, Bound: "not started: time budget used up"})
			continue
		}
		restoreBudget := r.SubBudget(r.Remaining() / time.Duration(len(runs)-ri+6)) // +6: the parts after this loop
		b := bound
		if rn.cfg.CleanOlder && !r.Thorough() {
			b = 1 // the combined environment event alone; preemptions on top of it in the thorough tier
		}
		xrun.Explore(r, rn.name, xrun.Opts{Kind: "recv", Bound: b, Budget: 40, Recycle: 2, Param: rn.cfg})
		restoreBudget()
	}
	for _, native := range []bool{true, false} {
		name := map[bool]string{true: "run-once-native", false: "run-once-shadow"}[native]
		if r.Expired() {
			r.AddPart(&ev.Part{Name: name, Engine: "E3", Exhaustive: false, Bound: "not started: time budget used up"})
			continue
		}
		xrun.Explore(r, name, xrun.Opts{Kind: "once", Bound: bound, Budget: 30, Recycle: 4,
			Param: loopworld.Cfg{Native: native, OnlyOnce: true, LoadFaults: true, LoopFirst: true, MaxVisits: 1, AppOps: []string{"put-b"}}})
		// an update of another kind (extension hook OtherUpdateSource) for an instance whose snapshot has not been merged yet:
		// run-once still waits for that snapshot
		if !r.Expired() {
			xrun.Explore(r, name+"-other-kind-update", xrun.Opts{Kind: "once", Bound: bound, Budget: 30, Recycle: 4,
				Param: loopworld.Cfg{Native: native, OnlyOnce: true, OtherUpdates: true, FirstLoadFails: true, LoopFirst: true, MaxVisits: 1, AppPoints: []string{"none"}}})
		}
		// a fresh instance (empty LMDB, no snapshot of its own) facing a bucket whose only / newest blob of the other
		// instance is undecodable: the run must still end by itself
		for _, corrupt := range []string{"only", "newest"} {
			if r.Expired() {
				r.AddPart(&ev.Part{Name: name + "-fresh-corrupt-" + corrupt, Engine: "E3", Exhaustive: false, Bound: "not started: time budget used up"})
				continue
			}
			xrun.Explore(r, name+"-fresh-corrupt-"+corrupt, xrun.Opts{Kind: "once", Bound: ev.Pick(r, 1, 2), Budget: 30, Recycle: 4,
				Param: loopworld.Cfg{Native: native, OnlyOnce: true, EmptyStart: true, Corrupt: corrupt, LoadFaults: true, LoopFirst: true, MaxVisits: 1, AppOps: []string{"put-b"}}})
		}
	}
	r.Finish()
}
