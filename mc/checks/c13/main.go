// C13 — the tomb sweeper removes exactly the expired deletion markers.
// Engine E3 (environment enumeration, inline): the real sweeper pass chopped
// into slices of n records (limit seam); at every slice boundary the
// application may commit operations on the last scanned key, the next key, an
// already passed key, or insert keys; deviation-bounded DFS over those choices
// for every enumerated database content. Native and non-native mode.
package main

import (
	"context"
	"encoding/json"
	"flag"
	"fmt"
	"sort"
	"strings"
	"time"

	"github.com/PowerDNS/lightningstream/config"
	"github.com/PowerDNS/lightningstream/syncer/sweeper"
	"github.com/PowerDNS/lightningstream/utils/verifhook"
	"github.com/PowerDNS/lmdb-go/lmdb"
	"github.com/sirupsen/logrus"

	"verif/lib/ev"
	"verif/lib/explore"
	"verif/lib/par"
	"verif/lib/world"
	"verif/lib/xrun"
)

type cfg struct {
	Native  bool   `json:"native"`
	D1      string `json:"d1"` // kinds of keys a,b,c,d in the first DBI: L live old, X expired marker, E marker exactly at the cutoff, W marker inside the load-cutoff window, N young marker, - absent
	D2      string `json:"d2"` // kinds of keys a,b in the second DBI
	Slice   int    `json:"slice"`
	AppOps  bool   `json:"app_ops"`
	Records int    `json:"records"` // >0: large scenario with this many entries and the real duration limit
}

var fixedNow = time.Date(2032, 6, 1, 12, 0, 0, 0, time.UTC)

const retention = 48 * time.Hour

var quiet = func() *logrus.Logger { l := logrus.New(); l.SetLevel(logrus.PanicLevel); return l }()

func tsOf(kind byte) (uint64, bool) {
	cut := uint64(fixedNow.Add(-retention).UnixNano())
	switch kind {
	case 'L':
		return cut - uint64(time.Hour), false
	case 'X':
		return cut - 1, true
	case 'E':
		return cut, true
	case 'W':
		return cut + uint64(10*time.Minute), true
	case 'N':
		return uint64(fixedNow.UnixNano()) - 5, true
	}
	return 0, false
}

func mkVal(kind byte, tag string) []byte {
	ts, del := tsOf(kind)
	if del {
		// every other marker carries a header extension block (as written with header_extra_padding_block, or by a
		// native application that uses extensions): markers are recognised by their flag, not by their length
		next := 0
		if len(tag) > 0 && tag[len(tag)-1]%2 == 0 {
			next = 1
		}
		return world.MakeHdr(ts, 1, 1, next, nil)
	}
	return world.MakeHdr(ts, 1, 0, 0, []byte("v"+tag))
}

var env *world.Env

func run(param json.RawMessage, ctx *explore.Ctx, viols *[]xrun.Viol) string {
	var c cfg
	_ = json.Unmarshal(param, &c)
	if env == nil {
		env = world.NewEnv(64 << 20)
	}
	add := func(sig, msg string) {
		for _, v := range *viols {
			if v.Sig == sig {
				return
			}
		}
		*viols = append(*viols, xrun.Viol{Sig: sig, Msg: msg})
	}
	// DBIs: native: d1, d2 carry headers. non-native: application DBIs d1,d2 are plain; the sweeper must only
	// touch _sync_shadow_d1 / _sync_shadow_d2.
	pre := ""
	if !c.Native {
		pre = world.ShadowPrefix
	}
	keys1 := []string{"a", "b", "c", "d"}
	keys2 := []string{"a", "b"}
	expect := map[string][]byte{} // "dbi/key" -> expected raw value (nil = absent); for entries the application did not touch
	err := env.Update(func(txn *lmdb.Txn) error {
		for _, name := range []string{"d1", "d2", world.ShadowPrefix + "d1", world.ShadowPrefix + "d2"} {
			dbi, err := txn.OpenDBI(name, lmdb.Create)
			if err != nil {
				return err
			}
			if err := txn.Drop(dbi, false); err != nil {
				return err
			}
		}
		put := func(dbiName, k string, kind byte) error {
			if kind == '-' {
				return nil
			}
			dbi, _ := txn.OpenDBI(pre+dbiName, 0)
			v := mkVal(kind, k)
			if kind != 'X' {
				expect[pre+dbiName+"/"+k] = v
			}
			return txn.Put(dbi, []byte(k), v, 0)
		}
		for i, k := range keys1 {
			if err := put("d1", k, c.D1[i]); err != nil {
				return err
			}
		}
		for i, k := range keys2 {
			if err := put("d2", k, c.D2[i]); err != nil {
				return err
			}
		}
		if !c.Native {
			// plain application data with the same keys: values that would parse as expired markers if misread
			for _, d := range []string{"d1", "d2"} {
				dbi, _ := txn.OpenDBI(d, 0)
				for _, k := range keys1 {
					v := mkVal('X', k)
					if err := txn.Put(dbi, []byte(k), v, 0); err != nil {
						return err
					}
					expect[d+"/"+k] = v
				}
			}
		}
		return nil
	})
	if err != nil {
		panic(err)
	}
	touched := map[string]string{} // "dbi/key" -> what the application did last ("put:<hex>" | "del" | "expired-marker")
	nOps := 0
	boundary := 0
	secondPass := false
	conf := config.Sweeper{Enabled: true, RetentionDays: 2, Interval: time.Hour, FirstInterval: time.Hour, LockDuration: time.Hour, ReleaseDuration: 104 * time.Millisecond}
	verifhook.SetInt(func(site string, v int) int {
		if site == "limitscanner.records" && c.Slice > 0 {
			return c.Slice
		}
		return v
	})
	verifhook.SetNow(func(site string, t time.Time) time.Time {
		if site != "sweeper.cutoff" {
			return t
		}
		// t = real now - retention used by the code: recover that retention (a whole number of seconds) and apply it to the fixed clock
		used := time.Since(t).Round(time.Second)
		return fixedNow.Add(-used)
	})
	verifhook.SetSleep(func(ctx context.Context, d time.Duration) (bool, error) { return true, nil })
	appTarget := pre + "d1"
	lastScanned := func() []string {
		// the application cannot see the scanner; the harness offers operations on every key position
		return []string{"a", "b", "c", "d"}
	}
	verifhook.SetYield(func(point, name string) {
		if point != "sweeper.betweenSlices" || !c.AppOps || secondPass {
			return
		}
		boundary++
		if nOps >= 3 {
			return
		}
		opts := []explore.Option{{Label: fmt.Sprintf("continue@%s#%d", name, boundary)}}
		type op struct{ kind, key string }
		var ops []op
		for _, k := range lastScanned() {
			for _, kind := range []string{"overwrite", "delete", "mark-expired", "mark-young", "mark-future", "revive"} {
				ops = append(ops, op{kind, k})
			}
		}
		for _, k := range []string{"a0", "bb", "zz"} { // inserts just after a, between b and c, at the end
			ops = append(ops, op{"insert-live", k}, op{"insert-expired", k})
		}
		for _, o := range ops {
			opts = append(opts, explore.Option{Label: fmt.Sprintf("app:%s:%s@%s#%d", o.kind, o.key, name, boundary), Cost: 1})
		}
		i := ctx.Choose(opts)
		if i == 0 {
			return
		}
		o := ops[i-1]
		nOps++
		_ = env.Update(func(txn *lmdb.Txn) error {
			dbi, _ := txn.OpenDBI(appTarget, 0)
			dk := appTarget + "/" + o.key
			switch o.kind {
			case "overwrite", "revive", "insert-live":
				v := world.MakeHdr(uint64(fixedNow.UnixNano())-1, uint64(txn.ID()), 0, 0, []byte("app"+o.key))
				touched[dk] = "put:" + string(v)
				return txn.Put(dbi, []byte(o.key), v, 0)
			case "delete":
				touched[dk] = "del"
				err := txn.Del(dbi, []byte(o.key), nil)
				if lmdb.IsNotFound(err) {
					return nil
				}
				return err
			case "mark-expired", "insert-expired":
				v := world.MakeHdr(uint64(fixedNow.Add(-retention).UnixNano())-7, uint64(txn.ID()), 1, 0, nil)
				touched[dk] = "expired-marker:" + string(v)
				return txn.Put(dbi, []byte(o.key), v, 0)
			case "mark-future":
				// a deletion stamped later than the start of the pass (made during the pass, or by an instance whose clock is ahead)
				v := world.MakeHdr(uint64(fixedNow.UnixNano())+5_000_000_000, uint64(txn.ID()), 1, 0, nil)
				touched[dk] = "put:" + string(v)
				return txn.Put(dbi, []byte(o.key), v, 0)
			case "mark-young":
				v := world.MakeHdr(uint64(fixedNow.UnixNano())-2, uint64(txn.ID()), 1, 0, nil)
				touched[dk] = "put:" + string(v)
				return txn.Put(dbi, []byte(o.key), v, 0)
			}
			return nil
		})
	})
	sw := sweeper.New("db", conf, env.Env, quiet, c.Native)
	serr := sw.VerifSweepOnce(context.Background())
	dump := env.RawDump()
	// a second pass of the same sweeper, undisturbed: whatever expired marker the application wrote behind the
	// scan position of the first pass must be gone after it
	secondPass = true
	var serr2 error
	if serr == nil {
		serr2 = sw.VerifSweepOnce(context.Background())
	}
	dump2 := env.RawDump()
	verifhook.SetYield(nil)
	verifhook.SetInt(nil)
	verifhook.SetNow(nil)
	verifhook.SetSleep(nil)
	desc := fmt.Sprintf("native=%v d1=%s d2=%s slice=%d", c.Native, c.D1, c.D2, c.Slice)
	if serr != nil {
		add("sweep-error", desc+": "+serr.Error())
		return "error"
	}
	if serr2 != nil {
		add("sweep-error", desc+" (second pass): "+serr2.Error())
		return "error"
	}
	cut2 := uint64(fixedNow.Add(-retention).UnixNano())
	for _, d := range dump2 {
		if !c.Native && !strings.HasPrefix(d.Name, world.ShadowPrefix) {
			continue
		}
		for _, e := range d.Entries {
			if h, _, err := world.ReadHdr(e.Val); err == nil && h.Flags&1 != 0 && h.TS < cut2 {
				add("expired-marker-survives-second-pass", fmt.Sprintf("%s: marker %s/%s (timestamp %d ns before the cutoff) is still present after a second, undisturbed pass of the same sweeper", desc, d.Name, e.Key, cut2-h.TS))
			}
		}
	}
	// compare
	got := map[string][]byte{}
	for _, d := range dump {
		for _, e := range d.Entries {
			got[d.Name+"/"+string(e.Key)] = e.Val
		}
	}
	all := map[string]bool{}
	for k := range got {
		all[k] = true
	}
	for k := range expect {
		all[k] = true
	}
	for k := range touched {
		all[k] = true
	}
	var keys []string
	for k := range all {
		keys = append(keys, k)
	}
	sort.Strings(keys)
	for _, k := range keys {
		g, present := got[k]
		if t, ok := touched[k]; ok {
			switch {
			case t == "del":
				if present {
					add("application-delete-undone", fmt.Sprintf("%s: %s deleted by the application during the pass is present afterwards", desc, k))
				}
			case strings.HasPrefix(t, "put:"):
				if !present || string(g) != t[4:] {
					add("application-write-altered", fmt.Sprintf("%s: %s written by the application during the pass: present=%v, bytes differ=%v", desc, k, present, present && string(g) != t[4:]))
				}
			case strings.HasPrefix(t, "expired-marker:"):
				// a marker older than the cutoff written during the pass: may or may not be swept, but not altered
				if present && string(g) != t[len("expired-marker:"):] {
					add("application-marker-altered", fmt.Sprintf("%s: %s", desc, k))
				}
			}
			continue
		}
		want, keep := expect[k]
		if keep {
			if !present {
				kind := "entry"
				if h, _, err := world.ReadHdr(want); err == nil && c.Native || strings.HasPrefix(k, world.ShadowPrefix) {
					if h.Flags&1 != 0 {
						kind = "young-marker"
						cut := uint64(fixedNow.Add(-retention).UnixNano())
						if h.TS == cut {
							kind = "marker-exactly-at-cutoff"
						} else if h.TS < cut+uint64(time.Hour) {
							kind = "marker-inside-load-cutoff-window"
						}
					} else {
						kind = "live-entry"
					}
				} else if !strings.HasPrefix(k, world.ShadowPrefix) && !c.Native {
					kind = "application-data-in-non-native-mode"
				}
				add("sweeper-removed-"+kind, fmt.Sprintf("%s: %s removed by the sweeper", desc, k))
			} else if string(g) != string(want) {
				add("sweeper-altered-entry", fmt.Sprintf("%s: %s altered", desc, k))
			}
		} else if present {
			add("expired-marker-survives", fmt.Sprintf("%s: expired marker %s (untouched during the pass) is still present; application ops %v", desc, k, touched))
		}
	}
	return fmt.Sprintf("ops=%d/boundaries=%d", nOps, min(boundary, 6))
}

func main() {
	flag.Parse()
	par.ServeIfWorker(map[string]par.Handler{"x": xrun.Handler(run)})
	if v, ok := ev.ReplayRequested(); ok {
		xrun.Replay(v, run)
		return
	}
	r := ev.Start("C13")
	defer r.RecoverMain()
	defer world.Cleanup()
	r.SetBudget(ev.Pick(r, 300*time.Second, 30*time.Minute))
	r.Assume("the cutoff seam maps the retention the code used onto a fixed clock, so markers sit exactly at cutoff-1ns / cutoff / cutoff+10min",
		"slices are cut after n records through the limit seam (n=1,2,3: every position is a slice boundary for some n); the duration-based limit is exercised by one large scenario",
		"a marker older than the cutoff that the application writes during the pass may or may not be swept (both accepted)")

	kinds := "LXEWN"
	// all contents of d1 over 5 kinds for 3 keys (+ fourth key cycling), d2 by each-choice
	var contents [][2]string
	for i := 0; i < 125; i++ {
		d1 := string([]byte{kinds[i%5], kinds[(i/5)%5], kinds[(i/25)%5], kinds[(i*2+1)%5]})
		d2 := string([]byte{"XL"[i%2], "LX-"[i%3]})
		contents = append(contents, [2]string{d1, d2})
	}
	contents = append(contents, [2]string{"XXXX", "XX"}, [2]string{"----", "X-"}, [2]string{"X---", "-X"})
	for _, native := range []bool{true, false} {
		mode := map[bool]string{true: "native", false: "non-native"}[native]
		// (1) no application activity: all contents x slice sizes
		p := &ev.Part{Name: "slicing-" + mode, Engine: "E3", Exhaustive: true}
		outcomes := map[string]bool{}
		for _, ct := range contents {
			for _, n := range []int{0, 1, 2, 3} {
				var viols []xrun.Viol
				pj, _ := json.Marshal(cfg{Native: native, D1: ct[0], D2: ct[1], Slice: n})
				out := run(pj, explore.NewCtx(nil), &viols)
				p.Executions++
				p.Transitions += 6
				outcomes[out+ct[0][:1]] = true
				for _, v := range viols {
					r.Violate(p.Name, v.Sig, v.Msg, map[string]any{"cfg": string(pj)})
				}
			}
		}
		p.States = int64(len(contents))
		p.Distinct = int64(len(outcomes))
		p.Bound = fmt.Sprintf("%d contents (all 5^3 kind combinations of three keys, fourth key cycling; second DBI by each-choice) x slice size {unlimited,1,2,3}", len(contents))
		p.Samples = []any{"native d1=XLEW d2=XL slice=1"}
		r.AddPart(p)
		// (2) concurrent application: DFS over operations at slice boundaries
		for _, deep := range []bool{false, true} {
			sel := contents
			bound := 1
			if deep {
				bound = 2
				if !r.Thorough() {
					sel = nil
					for i, ct := range contents {
						if i%11 == 0 || i >= 125 {
							sel = append(sel, ct)
						}
					}
				}
			}
			part := &ev.Part{Name: fmt.Sprintf("concurrent-application-%s-bound%d", mode, bound), Engine: "E3", Exhaustive: true}
			for _, ct := range sel {
				for _, n := range []int{1, 2} {
					if r.Expired() {
						part.Exhaustive = false
						break
					}
					sub := xrun.Explore(r, fmt.Sprintf("tmp-%s-%s-%s-%d", mode, ct[0], ct[1], n), xrun.Opts{Kind: "x", Bound: bound, Budget: 600,
						Param: cfg{Native: native, D1: ct[0], D2: ct[1], Slice: n, AppOps: true}})
					part.Executions += sub.Executions
					part.Transitions += sub.Transitions
					if !sub.Exhaustive {
						part.Exhaustive = false
					}
					if len(part.Samples) < 2 {
						part.Samples = append(part.Samples, sub.Samples...)
					}
				}
			}
			part.States = int64(len(sel) * 2)
			part.Distinct = part.States
			part.Bound = fmt.Sprintf("%d contents x slice size {1,2}; at every slice boundary of the first DBI the application may commit one of 26 operations (overwrite / delete / mark expired / mark young / revive on each key; insert live or expired key after a, between b and c, at the end); deviation bound %d, at most 3 operations per pass", len(sel), bound)
			r.AddPart(part)
		}
	}
	r.DropParts("tmp-")

	// (3) large database with the real duration-based limit
	{
		p := &ev.Part{Name: "large-duration-sliced", Engine: "E1", Exhaustive: true}
		for _, native := range []bool{true, false} {
			e := world.NewEnv(256 << 20)
			pre := ""
			if !native {
				pre = world.ShadowPrefix
			}
			const N = 6000
			exp := map[string]bool{}
			_ = e.Update(func(txn *lmdb.Txn) error {
				for _, d := range []string{"d1", "d2"} {
					dbi, _ := txn.OpenDBI(pre+d, lmdb.Create)
					for i := 0; i < N; i++ {
						k := fmt.Sprintf("key%05d", i)
						kind := "LXEWN"[i%5]
						if err := txn.Put(dbi, []byte(k), mkVal(kind, k), 0); err != nil {
							return err
						}
						if kind != 'X' {
							exp[pre+d+"/"+k] = true
						}
					}
				}
				return nil
			})
			verifhook.SetNow(func(site string, t time.Time) time.Time {
				if site != "sweeper.cutoff" {
					return t
				}
				return fixedNow.Add(-time.Since(t).Round(time.Second))
			})
			verifhook.SetSleep(func(ctx context.Context, d time.Duration) (bool, error) { return true, nil })
			sw := sweeper.New("db", config.Sweeper{Enabled: true, RetentionDays: 2, LockDuration: time.Nanosecond, ReleaseDuration: time.Millisecond}, e.Env, quiet, native)
			before := e.LastTxnID()
			err := sw.VerifSweepOnce(context.Background())
			verifhook.SetNow(nil)
			verifhook.SetSleep(nil)
			p.Executions++
			p.Transitions += e.LastTxnID() - before
			if err != nil {
				r.Violate(p.Name, "sweep-error", err.Error(), nil)
			}
			n := 0
			for _, d := range e.RawDump() {
				for _, en := range d.Entries {
					n++
					if !exp[d.Name+"/"+string(en.Key)] {
						r.Violate(p.Name, "expired-marker-survives-large", fmt.Sprintf("native=%v: %s/%s survived a pass with the duration limit (%d write transactions)", native, d.Name, en.Key, e.LastTxnID()-before), nil)
						break
					}
				}
			}
			if n != len(exp) {
				r.Violate(p.Name, "large-pass-removed-wrong-entries", fmt.Sprintf("native=%v: %d entries remain, expected %d", native, n, len(exp)), nil)
			}
			if e.LastTxnID()-before < 3 {
				r.Violate(p.Name, "large-pass-not-sliced", fmt.Sprintf("only %d write transactions: the duration limit did not slice the pass (harness expectation)", e.LastTxnID()-before), nil)
			}
			e.Destroy()
		}
		p.States = 2
		p.Distinct = 2
		p.Bound = "2 DBIs x 6000 entries (1200 expired markers each), lock duration 1 ns: the duration check (every 1000 records) slices the pass; native and non-native"
		p.Samples = []any{"key00001=X key00002=E ..."}
		r.AddPart(p)
	}
	// the retention the configuration stands for (fractional day counts are allowed)
	{
		p := &ev.Part{Name: "retention-of-fractional-day-counts", Engine: "E1", Exhaustive: true, Bound: "retention_days {0.25, 0.5, 1, 1.5, 2.5, 30.75, 370}: RetentionDuration() = days x 24 h (float32 tolerance); one real pass with 0.5 days: a one-hour-old marker survives, a 13-hour-old one is removed"}
		for _, days := range []float32{0.25, 0.5, 1, 1.5, 2.5, 30.75, 370} {
			got := config.Sweeper{RetentionDays: days}.RetentionDuration()
			want := time.Duration(float64(days) * 24 * float64(time.Hour))
			p.Executions++
			if d := got - want; d > want/100000 || d < -want/100000 {
				r.Violate(p.Name, "retention-duration-wrong", fmt.Sprintf("retention_days=%v: RetentionDuration() = %v, expected %v", days, got, want), map[string]any{"retention_days": days})
			}
		}
		for _, native := range []bool{true} {
			e := world.NewEnv(16 << 20)
			now := time.Now()
			must(e.Update(func(txn *lmdb.Txn) error {
				dbi, err := txn.OpenDBI("d", lmdb.Create)
				if err != nil {
					return err
				}
				must(txn.Put(dbi, []byte("young"), world.MakeHdr(uint64(now.Add(-time.Hour).UnixNano()), 1, 1, 0, nil), 0))
				must(txn.Put(dbi, []byte("old"), world.MakeHdr(uint64(now.Add(-13*time.Hour).UnixNano()), 1, 1, 0, nil), 0))
				return nil
			}))
			sw := sweeper.New("db", config.Sweeper{Enabled: true, RetentionDays: 0.5, LockDuration: time.Hour, ReleaseDuration: time.Millisecond}, e.Env, quiet, native)
			err := sw.VerifSweepOnce(context.Background())
			p.Executions++
			p.Transitions++
			have := map[string]bool{}
			for _, d := range e.RawDump() {
				for _, en := range d.Entries {
					have[string(en.Key)] = true
				}
			}
			if err != nil || !have["young"] || have["old"] {
				r.Violate(p.Name, "fractional-retention-pass-wrong", fmt.Sprintf("retention_days=0.5: err=%v, one-hour-old marker present=%v (must stay), 13-hour-old marker present=%v (must go)", err, have["young"], have["old"]), nil)
			}
			e.Destroy()
		}
		p.States, p.Distinct = p.Executions, 2
		r.AddPart(p)
	}
	r.Finish()
}

func must(err error) {
	if err != nil {
		panic(err)
	}
}
