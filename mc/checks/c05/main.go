// C05 — published data is never lost from the bucket.
// (b) engine E2: three real instances (one silent after its first upload) with real SendOnce /
// LoadOnce / cleaner.RunOnce / restarts / clock advances; monitor: the join over the newest
// snapshot of every instance never moves backwards.
// (a) engine E3: the real sync loop stopped and restarted at every hook (LMDB kept or emptied),
// storage faults; same monitor plus "no upload before the own newest snapshot is merged".
package main

import (
	"encoding/json"
	"flag"
	"fmt"
	"os"
	"strings"
	"time"

	"verif/lib/ev"
	"verif/lib/explore"
	"verif/lib/fleet"
	"verif/lib/loopworld"
	"verif/lib/par"
	"verif/lib/restartworld"
	"verif/lib/statemc"
	"verif/lib/world"
	"verif/lib/xrun"
)

func expand(hist []string, param json.RawMessage) statemc.Result {
	var cfg fleet.Cfg
	_ = json.Unmarshal(param, &cfg)
	f, err := fleet.Replay(cfg, hist)
	if err != nil {
		f.Close()
		return statemc.Result{Err: "replay failed: " + err.Error()}
	}
	evs := f.Enabled()
	f.Close()
	var res statemc.Result
	for _, e := range evs {
		g, err := fleet.Replay(cfg, hist)
		if err != nil {
			g.Close()
			return statemc.Result{Err: err.Error()}
		}
		nv := len(g.MonViols)
		s := statemc.Succ{Ev: e}
		if err := g.Apply(e); err != nil {
			g.Close()
			if _, ok := err.(fleet.ImplError); ok {
				s.Stop = true
				s.Key = fleet.Hash("err" + strings.Join(hist, " ") + e)
				s.Viols = []statemc.Viol{{Sig: "impl-error-" + string(e[0]), Msg: err.Error()}}
				res.Succs = append(res.Succs, s)
				continue
			}
			return statemc.Result{Err: err.Error()}
		}
		s.Key = fleet.Hash(g.Canon())
		for _, m := range g.MonViols[nv:] {
			sig := "published-data-lost"
			if e[0] == 'C' {
				sig = "published-data-lost-by-cleaner"
			}
			s.Viols = append(s.Viols, statemc.Viol{Sig: sig, Msg: m})
			s.Stop = true
		}
		s.Term = fleet.Hash(strings.Join(g.B.Names(), ","))
		g.Close()
		res.Succs = append(res.Succs, s)
	}
	return res
}

func runRestart(param json.RawMessage, ctx *explore.Ctx, viols *[]xrun.Viol) string {
	var cfg restartworld.Cfg
	_ = json.Unmarshal(param, &cfg)
	res := restartworld.Run(cfg, ctx)
	for _, v := range res.Viols {
		if !loopworld.Judged(v.Sig, "c05") {
			continue // judged by C09
		}
		*viols = append(*viols, xrun.Viol{Sig: v.Sig, Msg: v.Msg})
	}
	return res.Outcome
}

// the real loop with its real cleaner goroutine: Store failures, cleaner timer firing in between
func runLoop(param json.RawMessage, ctx *explore.Ctx, viols *[]xrun.Viol) string {
	var cfg loopworld.Cfg
	_ = json.Unmarshal(param, &cfg)
	res := loopworld.Run(cfg, ctx)
	for _, v := range res.Viols {
		if !loopworld.Judged(v.Sig, "c05") {
			continue
		}
		*viols = append(*viols, xrun.Viol{Sig: v.Sig, Msg: v.Msg})
	}
	return fmt.Sprintf("%s/stores=%d/loads=%d", res.Outcome, res.Stores, res.Loads)
}

func main() {
	flag.Parse()
	par.ServeIfWorker(map[string]par.Handler{"x": statemc.Handler(expand), "restart": xrun.Handler(runRestart), "loop": xrun.Handler(runLoop)})
	if v, ok := ev.ReplayRequested(); ok {
		switch {
		case strings.HasPrefix(v.Part, "b-"):
			statemc.Replay(v, expand)
		case strings.HasPrefix(v.Part, "a-loop"):
			xrun.Replay(v, runLoop)
		default:
			xrun.Replay(v, runRestart)
		}
		return
	}
	if os.Getenv("VERIF_DEBUG") != "" {
		cfg := restartworld.Cfg{Native: os.Getenv("VERIF_DEBUG") == "native"}
		var st explore.Stats
		nodes := []explore.Node{{}}
		n := 0
		for len(nodes) > 0 && n < 40 {
			nodes = explore.Budgeted(nodes, 2, 25, func(c *explore.Ctx) string {
				res := restartworld.Run(cfg, c)
				fmt.Printf("%s steps=%d viols=%v dev=%v\n", res.Outcome, res.Steps, res.Viols, c.Deviations())
				return res.Outcome
			}, &st)
			n++
		}
		return
	}
	r := ev.Start("C05")
	defer r.RecoverMain()
	defer world.Cleanup()
	r.SetBudget(ev.Pick(r, 700*time.Second, 60*time.Minute))
	r.Assume("monitor: after every bucket mutation the join (per key the highest timestamp) over the newest snapshot of every instance must not lose a key or move it to an older timestamp; sweeper disabled",
		"part (b): the search starts from a scripted non-initial state: instance c wrote its key and uploaded once, then goes silent; instances a and b have written their keys",
		"part (b): the cleaners' hidden first-seen bookkeeping is mirrored by the harness for state deduplication only")

	keep, stale := int64(10*time.Second), int64(100*time.Second)
	d := ev.Pick(r, 0, 1)
	type run struct {
		name  string
		cfg   fleet.Cfg
		depth int
	}
	runs := []run{
		{"b-cleaners-native", fleet.Cfg{N: 3, Native: true, Keys: []string{"d/ka", "d/kb", "d/kc"}, Vals: []string{"x"}, OwnKeys: true, NoDelete: true, NewestOnly: true, Cleaner: true, Restart: true, KeepNS: keep, StaleNS: stale, Silent: 2,
			Prefix: []string{"P2:d/kc:0+", "S2+", "P0:d/ka:0+", "P1:d/kb:0+", "S0+", "S1+"}}, 5 + 2*d},
		{"b-cleaners-shadow", fleet.Cfg{N: 3, Native: false, Keys: []string{"d/ka", "d/kb", "d/kc"}, Vals: []string{"x"}, OwnKeys: true, NoDelete: true, NewestOnly: true, Cleaner: true, Restart: false, KeepNS: keep, StaleNS: stale, Silent: 2,
			Prefix: []string{"P2:d/kc:0+", "S2+", "P0:d/ka:0+", "P1:d/kb:0+", "S0+", "S1+"}}, 5 + 2*d},
	}
	if r.Thorough() {
		runs = append(runs, run{"b-cleaners-native-short-prefix", fleet.Cfg{N: 3, Native: true, Keys: []string{"d/ka", "d/kb", "d/kc"}, Vals: []string{"x"}, OwnKeys: true, NoDelete: true, NewestOnly: true, Cleaner: true, Restart: true, KeepNS: keep, StaleNS: stale, Silent: 2,
			Prefix: []string{"P2:d/kc:0+", "S2+", "P0:d/ka:0+", "P1:d/kb:0+"}}, 7})
	}
	// ---------- part (a) ----------
	for _, native := range []bool{true, false} {
		name := map[bool]string{true: "a-restarts-native", false: "a-restarts-shadow"}[native]
		if r.Expired() {
			r.AddPart(&ev.Part{Name: name, Engine: "E3", Exhaustive: false, Bound: "not started: time budget used up"})
			continue
		}
		restore := r.SubBudget(ev.Pick(r, 70*time.Second, 8*time.Minute))
		xrun.Explore(r, name, xrun.Opts{Kind: "restart", Bound: ev.Pick(r, 2, 3), Budget: 30, Recycle: 4, Param: restartworld.Cfg{Native: native, Faults: r.Thorough()}})
		restore()
		restore = r.SubBudget(ev.Pick(r, 70*time.Second, 8*time.Minute))
		xrun.Explore(r, name+"-just-restarted-empty", xrun.Opts{Kind: "restart", Bound: ev.Pick(r, 2, 3), Budget: 30, Recycle: 4, Param: restartworld.Cfg{Native: native, Faults: true, StartEmpty: true, ForceInterval: true, MaxLives: 2}})
		restore()
		if native {
			restore = r.SubBudget(ev.Pick(r, 70*time.Second, 8*time.Minute))
			xrun.Explore(r, name+"-sweeper-old-entries", xrun.Opts{Kind: "restart", Bound: ev.Pick(r, 1, 2), Budget: 30, Recycle: 4, Param: restartworld.Cfg{Native: true, Faults: true, StartEmpty: true, OldEntries: true, MaxLives: 2}})
			restore()
		}
	}
	for _, native := range []bool{true, false} {
		name := map[bool]string{true: "a-loop-with-cleaner-native", false: "a-loop-with-cleaner-shadow"}[native]
		if r.Expired() {
			r.AddPart(&ev.Part{Name: name, Engine: "E3", Exhaustive: false, Bound: "not started: time budget used up"})
			continue
		}
		restore := r.SubBudget(ev.Pick(r, 70*time.Second, 8*time.Minute))
		xrun.Explore(r, name, xrun.Opts{Kind: "loop", Bound: ev.Pick(r, 2, 3), Budget: 30, Recycle: 4,
			Param: loopworld.Cfg{Native: native, Cleaner: true, StoreFaults: 2, Remote2: true, AppPoints: []string{"sync.beforeInfo"}, AppOps: []string{"put-b"}, MaxVisits: 1}})
		restore()
	}
	// ---------- part (b) ----------
	for ri, rn := range runs {
		if r.Expired() {
			r.AddPart(&ev.Part{Name: rn.name, Engine: "E2", Exhaustive: false, Bound: "not started: time budget used up"})
			continue
		}
		restore := r.SubBudget(r.Remaining() / time.Duration(len(runs)-ri))
		st := statemc.Run(r, rn.name, "x", rn.cfg, rn.depth, 0)
		restore()
		cj, _ := json.Marshal(rn.cfg)
		r.AddPart(&ev.Part{Name: rn.name, Engine: "E2", States: st.States, Transitions: st.Transitions, Executions: st.Transitions, Distinct: int64(st.Terminals), Exhaustive: st.Exhaustive,
			Bound:   fmt.Sprintf("BFS depth %d of %d completed (frontier sizes %v) after the scripted prefix; monitor after every event; cfg %s", st.Depth, rn.depth, st.PerDepth, cj),
			Samples: st.Samples})
	}
	r.Finish()
}
