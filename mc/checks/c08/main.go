// C08 — hostile or corrupt snapshot blobs cannot crash, hang or block an instance.
// Part (a), engine E1 (fault enumeration over valid messages): every tag and
// length varint of every nesting level replaced by adversarial values, every
// wire type, every truncation, every bit flip, inside a valid gzip container
// and with damaged containers. Decoding runs in worker subprocesses with a
// memory limit and a watchdog.
package main

import (
	"bytes"
	"compress/gzip"
	"encoding/hex"
	"encoding/json"
	"flag"
	"fmt"
	"io"
	"os"
	"regexp"
	"runtime"
	"strings"
	"time"

	"github.com/PowerDNS/lightningstream/snapshot"

	"verif/lib/ev"
	"verif/lib/explore"
	"verif/lib/loopworld"
	"verif/lib/par"
	"verif/lib/pb"
	"verif/lib/recvworld"
	"verif/lib/world"
	"verif/lib/xrun"
)

func rep(c byte, n int) []byte { return bytes.Repeat([]byte{c}, n) }

func bases() []pb.Snap {
	meta := pb.Meta{GenerationID: "G", InstanceID: "i", Hostname: "h", DatabaseName: "d", LmdbTxnID: 1, FromLmdbTxnID: 1, TimestampNano: 1}
	return []pb.Snap{
		{FV: 3, CV: 1, Meta: meta, DBIs: []pb.DBI{
			{Name: "d1", Flags: 8, Transform: "other", Entries: []pb.KV{{Key: []byte("a"), Val: []byte("x"), TS: 7, Flags: 1}, {Key: []byte("b"), Val: []byte("yy"), TS: 8}}},
			{Name: "d2", Entries: []pb.KV{{Key: []byte("c"), TS: 9, Flags: 1}}}}},
		{FV: 1, DBIs: []pb.DBI{{Name: "only", Entries: []pb.KV{{Key: []byte("k"), Val: rep('v', 130)}}}}},
		{FV: 3, CV: 3, Meta: pb.Meta{InstanceID: "i"}, DBIs: []pb.DBI{{Name: "empty", Flags: 1 << 32}, {Name: "e2", Transform: "dupsort_hack_v1", Entries: []pb.KV{{Key: []byte("k"), Val: []byte("v"), TS: 1, Flags: 1<<32 - 1}}}}},
		{FV: 2, CV: 1, Meta: meta, DBIs: []pb.DBI{{Name: "x", Entries: []pb.KV{{Key: []byte("k1"), Val: []byte("1")}, {Key: []byte("k2"), Val: []byte("2")}, {Key: []byte("k3"), Val: []byte("3")}}}}},
		{FV: 3, DBIs: []pb.DBI{{Name: string(rep('n', 128)), Entries: []pb.KV{{Key: rep('K', 128), Val: rep('V', 20), TS: 1<<64 - 1}}}}},
		{},
	}
}

// baseMsgs returns the message trees: canonical ones plus ones with unknown
// fields and fields after the entries.
func baseMsgs() []*pb.Msg {
	var out []*pb.Msg
	for _, b := range bases() {
		out = append(out, b.ToMsg())
	}
	// DBI fields after entries + unknown fields at each level
	m := bases()[0].ToMsg()
	m.F = append(m.F, pb.F{Num: 15, WT: pb.WTBytes, B: []byte("u")}, pb.F{Num: 16, WT: pb.WTFixed32, V: 1})
	m.Walk("", func(p string, mm *pb.Msg) {
		if strings.Count(p, "/") == 1 && strings.HasPrefix(p, "/3#") {
			mm.F = append(mm.F, pb.F{Num: 9, WT: pb.WTFixed64, V: 5}, pb.F{Num: 3, WT: pb.WTVarint, V: 9}, pb.F{Num: 4, WT: pb.WTBytes, B: []byte("late")})
		}
		if strings.Count(p, "/") == 2 {
			mm.F = append(mm.F, pb.F{Num: 7, WT: pb.WTBytes, B: []byte("uk")}, pb.F{Num: 8, WT: pb.WTVarint, V: 300})
		}
	})
	out = append(out, m)
	return out
}

func subValues(trueVal uint64, remain int) []uint64 {
	vals := []uint64{0, 1, trueVal - 1, trueVal + 1, uint64(remain), uint64(remain + 1), 127, 128, 1<<31 - 1, 1 << 31, 1 << 32, 1<<63 - 1, 1 << 63, 1<<64 - 1}
	for k := uint64(1); k <= 12; k++ {
		vals = append(vals, -k)
	}
	// lengths that are negative as int and bring a cursor exactly back
	for _, d := range []int{2, 3, 4, 5, 8, 16, 24, 40} {
		vals = append(vals, uint64(int64(-d)))
	}
	seen := map[uint64]bool{}
	var out []uint64
	for _, v := range vals {
		if !seen[v] {
			seen[v] = true
			out = append(out, v)
		}
	}
	return out
}

type task struct {
	Base int
	Kind string // "fields", "trunc", "bitflip", "gzip"
}

type failure struct {
	Sig   string
	Msg   string
	Input string
}

type taskResult struct {
	Blobs    int64
	Classes  map[string]int64
	Failures []failure
	Sample   string
}

var gzw *gzip.Writer
var gzbuf bytes.Buffer

func gz(data []byte) []byte {
	gzbuf.Reset()
	if gzw == nil {
		gzw, _ = gzip.NewWriterLevel(&gzbuf, gzip.NoCompression)
	} else {
		gzw.Reset(&gzbuf)
	}
	_, _ = gzw.Write(data)
	_ = gzw.Close()
	return append([]byte{}, gzbuf.Bytes()...)
}

var reFrame = regexp.MustCompile(`github\.com/PowerDNS/lightningstream/([A-Za-z0-9_/.()*]+)\(`)

var curInput []byte

// decodeAll is the operation under test: LoadData + full iteration.
func decodeAll(blob []byte, pbLen int) (class string, fail *failure) {
	curInput = blob
	var ms0, ms1 runtime.MemStats
	runtime.ReadMemStats(&ms0)
	t0 := time.Now()
	func() {
		defer func() {
			if p := recover(); p != nil {
				buf := make([]byte, 8192)
				buf = buf[:runtime.Stack(buf, false)]
				site := "unknown"
				for _, m := range reFrame.FindAllStringSubmatch(string(buf), -1) {
					if !strings.Contains(m[1], "verif") {
						site = m[1]
						break
					}
				}
				msg := fmt.Sprint(p)
				kind := "other"
				if strings.Contains(msg, "slice bounds out of range") || strings.Contains(msg, "index out of range") {
					kind = "bounds"
				} else if strings.Contains(msg, "makeslice") || strings.Contains(msg, "out of memory") {
					kind = "alloc"
				}
				fail = &failure{Sig: "panic-" + kind + "-in-" + site, Msg: fmt.Sprintf("panic: %v", p), Input: fmt.Sprintf("%x", blob)}
			}
		}()
		s, err := snapshot.LoadData(blob)
		if err != nil {
			class = "error-load"
			return
		}
		n := 0
		for _, d := range s.Databases {
			_ = d.Name()
			_ = d.Flags()
			_ = d.Transform()
			d.ResetCursor()
			for steps := 0; ; steps++ {
				_, err := d.Next()
				if err == io.EOF {
					break
				}
				if err != nil {
					class = "error-iterate"
					return
				}
				n++
				if steps > 16*(len(blob)+pbLen)+1000 {
					fail = &failure{Sig: "iteration-does-not-terminate", Msg: fmt.Sprintf("Next() returned more than %d entries from a %d byte message", steps, pbLen), Input: fmt.Sprintf("%x", blob)}
					return
				}
			}
		}
		class = "snapshot"
	}()
	if fail != nil {
		return
	}
	dt := time.Since(t0)
	runtime.ReadMemStats(&ms1)
	alloc := ms1.TotalAlloc - ms0.TotalAlloc
	limit := uint64(64*(len(blob)+pbLen) + 1<<20)
	if alloc > limit {
		fail = &failure{Sig: "allocation-not-proportional", Msg: fmt.Sprintf("allocated %d bytes for a %d byte blob (%d decompressed); bound %d", alloc, len(blob), pbLen, limit), Input: fmt.Sprintf("%x", blob)}
	}
	if dt > 5*time.Second {
		fail = &failure{Sig: "decode-too-slow", Msg: fmt.Sprintf("%s for a %d byte blob", dt, len(blob)), Input: fmt.Sprintf("%x", blob)}
	}
	return
}

func runTask(payload []byte) []byte {
	var t task
	_ = json.Unmarshal(payload, &t)
	res := taskResult{Classes: map[string]int64{}}
	// watchdog: a decode that does not return is a hang
	wd := time.AfterFunc(60*time.Second, func() {
		fmt.Fprintf(os.Stderr, "WATCHDOG task=%+v input=%x\n", t, curInput)
		os.Exit(77)
	})
	defer wd.Stop()
	try := func(pbdata []byte, blob []byte) {
		wd.Reset(20 * time.Second)
		class, f := decodeAll(blob, len(pbdata))
		res.Blobs++
		if f != nil {
			res.Classes["failure"]++
			if len(res.Failures) < 50 {
				res.Failures = append(res.Failures, *f)
			}
			return
		}
		res.Classes[class]++
	}
	msgs := baseMsgs()
	root := msgs[t.Base]
	switch t.Kind {
	case "fields":
		enc, marks := root.EncMarks()
		_ = enc
		// address fields by walking clone in the same order as marks are produced
		type ref struct {
			path string
			idx  int
		}
		var refs []ref
		root.Walk("", func(p string, m *pb.Msg) {
			for i := range m.F {
				refs = append(refs, ref{p, i})
			}
		})
		_ = marks
		for _, rf := range refs {
			get := func(c *pb.Msg) *pb.F {
				var out *pb.F
				c.Walk("", func(p string, m *pb.Msg) {
					if p == rf.path {
						out = &m.F[rf.idx]
					}
				})
				return out
			}
			orig := get(root)
			total := len(enc)
			trueTag := uint64(orig.Num)<<3 | uint64(orig.WT)
			// tags: all wire types, and adversarial tag values
			var tagVals []uint64
			for wt := uint64(0); wt < 8; wt++ {
				tagVals = append(tagVals, uint64(orig.Num)<<3|wt)
			}
			tagVals = append(tagVals, subValues(trueTag, total)...)
			for _, tv := range tagVals {
				c := root.Clone()
				f := get(c)
				v := tv
				f.TagOv = &v
				d := c.Enc()
				try(d, gz(d))
			}
			if orig.WT == pb.WTBytes {
				plen := len(orig.B)
				if orig.M != nil {
					plen = len(orig.M.Enc())
				}
				for _, lv := range subValues(uint64(plen), total) {
					c := root.Clone()
					f := get(c)
					v := lv
					f.LenOv = &v
					d := c.Enc()
					try(d, gz(d))
				}
			}
		}
		if len(refs) > 0 {
			res.Sample = fmt.Sprintf("base %d: %d field occurrences, e.g. length of %s replaced by 2^64-3", t.Base, len(refs), refs[len(refs)/2].path)
		}
	case "trunc":
		enc := root.Enc()
		for i := 0; i <= len(enc); i++ {
			try(enc[:i], gz(enc[:i]))
		}
		res.Sample = fmt.Sprintf("base %d truncated at every offset 0..%d", t.Base, len(enc))
	case "bitflip":
		enc := root.Enc()
		for i := 0; i < len(enc)*8; i++ {
			d := append([]byte{}, enc...)
			d[i/8] ^= 1 << (i % 8)
			try(d, gz(d))
		}
		res.Sample = fmt.Sprintf("base %d: every single-bit flip of %d bytes", t.Base, len(enc))
	case "bytesub":
		enc := root.Enc()
		for i := 0; i < len(enc); i++ {
			for v := 0; v < 256; v++ {
				if byte(v) == enc[i] {
					continue
				}
				d := append([]byte{}, enc...)
				d[i] = byte(v)
				try(d, gz(d))
			}
		}
		res.Sample = fmt.Sprintf("base %d: every single-byte substitution (255 values) at each of %d offsets", t.Base, len(enc))
	case "gzip":
		enc := root.Enc()
		blob := gz(enc)
		var real bytes.Buffer
		w, _ := gzip.NewWriterLevel(&real, gzip.BestSpeed)
		_, _ = w.Write(enc)
		_ = w.Close()
		for _, b := range [][]byte{blob, real.Bytes()} {
			for i := 0; i <= len(b); i++ {
				try(enc, b[:i])
			}
			for i := 0; i < len(b)*8; i++ {
				d := append([]byte{}, b...)
				d[i/8] ^= 1 << (i % 8)
				try(enc, d)
			}
		}
		try(nil, nil)
		try(nil, []byte{0x1f, 0x8b})
		try(enc, enc) // not gzip at all
		// two concatenated gzip members, trailing garbage
		try(enc, append(append([]byte{}, blob...), blob...))
		try(enc, append(append([]byte{}, blob...), 0, 1, 2, 3))
		res.Sample = fmt.Sprintf("base %d: every truncation and single-bit flip of the gzip container (%d bytes)", t.Base, len(blob))
	}
	out, _ := json.Marshal(res)
	return out
}

// part (b): undecodable blobs placed among valid snapshots, in the receiver scenario (engine E3).
func runRecv(param json.RawMessage, ctx *explore.Ctx, viols *[]xrun.Viol) string {
	var cfg recvworld.Cfg
	_ = json.Unmarshal(param, &cfg)
	res := recvworld.Run(cfg, ctx)
	for _, v := range res.Viols {
		*viols = append(*viols, xrun.Viol{Sig: v.Sig, Msg: v.Msg})
	}
	return res.Outcome
}

func main() {
	flag.Parse()
	par.ServeIfWorker(map[string]par.Handler{"t": runTask, "recv": xrun.Handler(runRecv), "loop": xrun.Handler(runLoop)})
	if v, ok := ev.ReplayRequested(); ok {
		if strings.HasPrefix(v.Part, "receiver-placement") {
			xrun.Replay(v, runRecv)
		} else if strings.HasPrefix(v.Part, "syncer-run-once") {
			xrun.Replay(v, runLoop)
		} else {
			var hexBlob string
			if v.ReplayField("blob_hex", &hexBlob) {
				blob, _ := hex.DecodeString(hexBlob)
				class, f := decodeAll(blob, len(blob))
				fmt.Printf("  re-decoded the recorded blob (%d bytes): class=%s failure=%+v\n", len(blob), class, f)
			}
		}
		return
	}
	r := ev.Start("C08")
	defer r.RecoverMain()
	defer world.Cleanup()
	r.Assume("resource oracle is coarse: allocation <= 64*(|blob|+|decompressed|)+1MB, watchdog 20 s per blob, iteration steps <= 16*|input|+1000",
		"part (b) (placement of undecodable blobs among valid snapshots in the receiver) is decided by the receiver scenario, see part receiver-placement")

	var tasks [][]byte
	var tlist []task
	nb := len(baseMsgs())
	for b := 0; b < nb; b++ {
		for _, k := range []string{"fields", "trunc", "bitflip"} {
			tlist = append(tlist, task{b, k})
		}
		if b < 2 || r.Thorough() {
			tlist = append(tlist, task{b, "gzip"})
		}
		if b == 0 || b == 3 || b == 6 || r.Thorough() {
			tlist = append(tlist, task{b, "bytesub"})
		}
	}
	for _, t := range tlist {
		j, _ := json.Marshal(t)
		tasks = append(tasks, j)
	}
	part := &ev.Part{Name: "decoder-fault-enumeration", Engine: "E1", Exhaustive: true}
	classes := map[string]int64{}
	pool := &par.Pool{MemKB: 4 << 20, Timeout: 5 * time.Minute}
	var retry [][]byte
	handle := func(res par.Result, second bool, tl []task) {
		t := tl[res.Index]
		if res.Err != nil {
			if !second {
				j, _ := json.Marshal(t)
				retry = append(retry, j)
				return
			}
			sig := "decoder-crash"
			if strings.Contains(res.Stderr, "WATCHDOG") {
				sig = "decoder-hang"
			} else if strings.Contains(res.Stderr, "out of memory") || strings.Contains(res.Stderr, "cannot allocate") {
				sig = "decoder-exhausts-memory"
			}
			r.Violate(part.Name, sig, fmt.Sprintf("worker died twice on task %+v: %v\n%s", t, res.Err, par.TrimStderr(res.Stderr)), map[string]any{"task": t, "stderr": par.TrimStderr(res.Stderr)})
			return
		}
		var tr taskResult
		_ = json.Unmarshal(res.Out, &tr)
		part.Executions += tr.Blobs
		part.Transitions += tr.Blobs
		for k, v := range tr.Classes {
			classes[k] += v
		}
		for _, f := range tr.Failures {
			r.Violate(part.Name, f.Sig, fmt.Sprintf("task %+v: %s", t, f.Msg), map[string]any{"task": t, "blob_hex": f.Input})
		}
		if len(part.Samples) < 4 && tr.Sample != "" {
			part.Samples = append(part.Samples, tr.Sample)
		}
	}
	pool.Map("t", tasks, func(res par.Result) { handle(res, false, tlist) }, nil)
	if len(retry) > 0 {
		var tl2 []task
		for _, j := range retry {
			var t task
			_ = json.Unmarshal(j, &t)
			tl2 = append(tl2, t)
		}
		pool.Map("t", retry, func(res par.Result) { handle(res, true, tl2) }, nil)
	}
	part.States = int64(len(classes))
	part.Distinct = int64(len(classes))
	part.Bound = fmt.Sprintf("%d base messages (<=350 bytes, incl. unknown fields and late DBI fields): every field occurrence at every nesting level x {8 wire types, ~35 adversarial tag values, ~35 adversarial length values incl. 2^63.., 2^64-k}; every truncation; every single-bit flip; every single-byte substitution (quick: 3 bases); gzip container truncations/bit flips for %d bases", nb, ev.Pick(r, 2, nb))
	r.Extra("outcome_classes", classes)
	r.AddPart(part)

	// ---------- part (b) ----------
	r.SetBudget(ev.Pick(r, 300*time.Second, 30*time.Minute))
	placements := [][]string{{"b:newest"}, {"b:older"}, {"c:only"}, {"b:newest", "c:only"}, {"b:newest", "c:newest"}}
	for _, pl := range placements {
		name := "receiver-placement-" + strings.Join(pl, "+")
		if r.Expired() {
			r.AddPart(&ev.Part{Name: name, Engine: "E3", Exhaustive: false, Bound: "not started: time budget used up"})
			continue
		}
		xrun.Explore(r, name, xrun.Opts{Kind: "recv", Bound: ev.Pick(r, 1, 2), Budget: 40, Recycle: 2,
			Param: recvworld.Cfg{DownloadLimit: 2, DecompressLimit: ev.Pick(r, 1, 2), Instances: []string{"b", "c"}, Corrupt: pl, Faults: r.Thorough(), Polls: 1}})
	}
	// ---------- part (c): the whole Syncer ----------
	for _, corrupt := range []string{"only", "newest"} {
		for _, empty := range []bool{true, false} {
			for _, native := range []bool{true, false} {
				name := fmt.Sprintf("syncer-run-once-corrupt-%s-%s-%s", corrupt, map[bool]string{true: "fresh", false: "steady"}[empty], map[bool]string{true: "native", false: "shadow"}[native])
				if r.Expired() {
					r.AddPart(&ev.Part{Name: name, Engine: "E3", Exhaustive: false, Bound: "not started: time budget used up"})
					continue
				}
				xrun.Explore(r, name, xrun.Opts{Kind: "loop", Bound: ev.Pick(r, 1, 2), Budget: 30, Recycle: 4,
					Param: loopworld.Cfg{Native: native, OnlyOnce: true, EmptyStart: empty, Corrupt: corrupt, LoadFaults: r.Thorough(), LoopFirst: true, MaxVisits: 1, AppOps: []string{"put-b"}}})
			}
		}
	}
	r.Finish()
}

func runLoop(param json.RawMessage, ctx *explore.Ctx, viols *[]xrun.Viol) string {
	var cfg loopworld.Cfg
	_ = json.Unmarshal(param, &cfg)
	res := loopworld.Run(cfg, ctx)
	for _, v := range res.Viols {
		if strings.HasPrefix(v.Sig, "c16:") || v.Sig == "loop-stuck" || v.Sig == "loop-never-goes-idle" {
			*viols = append(*viols, xrun.Viol{Sig: "c08:" + strings.TrimPrefix(v.Sig, "c16:"), Msg: v.Msg})
		}
	}
	return fmt.Sprintf("%s/stores=%d/loads=%d", res.Outcome, res.Stores, res.Loads)
}
