// C18 — a snapshot is merged all-or-nothing, for every supported format version.
// (a) engine E1 (fault enumeration): one failure at every (DBI, entry) position of a
// three-DBI merge, every kind of failure, incl. a map-size sweep; LMDB byte-identical afterwards.
// (b) engine E1: format x compat version matrix with per-version reference semantics.
// (c) engine E3 (inline): a reader takes read transactions at the hook after every DBI of a merge.
package main

import (
	"bytes"
	"compress/gzip"
	"context"
	"flag"
	"fmt"
	"sort"
	"strings"
	"time"

	"github.com/PowerDNS/lightningstream/lmdbenv/header"
	"github.com/PowerDNS/lightningstream/snapshot"
	"github.com/PowerDNS/lightningstream/utils/verifhook"
	"github.com/PowerDNS/lmdb-go/lmdb"

	"verif/lib/ev"
	"verif/lib/inst"
	"verif/lib/pb"
	"verif/lib/world"
)

func gz(data []byte) []byte {
	var b bytes.Buffer
	w, _ := gzip.NewWriterLevel(&b, gzip.BestSpeed)
	_, _ = w.Write(data)
	_ = w.Close()
	return b.Bytes()
}

// countingCtx reports cancellation from the n-th observation (Done() or Err() call) on: the context is cancelled
// at some moment between the (n-1)-th and the n-th time the code looks at it.
type countingCtx struct {
	context.Context
	n, calls int
	ch       chan struct{}
}

func (c *countingCtx) Done() <-chan struct{} {
	c.calls++
	if c.calls >= c.n {
		select {
		case <-c.ch:
		default:
			close(c.ch)
		}
	}
	return c.ch
}
func (c *countingCtx) Err() error {
	// Err is an observation of the context too: cancellation may have happened since the last one
	c.calls++
	if c.calls >= c.n {
		select {
		case <-c.ch:
		default:
			close(c.ch)
		}
	}
	select {
	case <-c.ch:
		return context.Canceled
	default:
		return nil
	}
}

const clockBase uint64 = 1_800_000_000_000_000_000
const tsIncoming = clockBase + 3_000_000_000

var clock = clockBase

const T0 = 100 // timestamp of the local content

type setupOpt struct {
	native    bool
	mapSize   int64
	garbageAt string // "d2/b": stored value without header (native)
	bigLocal  bool
}

// target: three DBIs x three keys, in steady state.
func target(o setupOpt) (*inst.Inst, *world.Bucket) {
	clock = clockBase // identical timestamps for every target, so that twins can be compared byte by byte
	bkt := world.NewBucket()
	a := inst.New("a", bkt, inst.Opt{Native: o.native, MapSize: o.mapSize})
	a.AppTxn(func(txn *lmdb.Txn) error {
		for _, d := range []string{"d1", "d2", "d3"} {
			for _, k := range []string{"a", "b", "c"} {
				if o.native {
					if o.garbageAt == d+"/"+k {
						dbi, _ := txn.OpenDBI(d, lmdb.Create)
						if err := txn.Put(dbi, []byte(k), []byte("short"), 0); err != nil {
							return err
						}
						continue
					}
					inst.NativePut(txn, d, []byte(k), T0, false, []byte("local-"+d+k))
				} else {
					inst.PlainPut(txn, d, 0, []byte(k), []byte("local-"+d+k))
				}
			}
		}
		return nil
	})
	if !o.native {
		if _, err := a.Send(); err != nil {
			panic(err)
		}
	}
	return a, bkt
}

// incoming: a snapshot whose three DBIs each change all three keys (newer timestamps).
func incoming(fv, cv uint32, valSize int) pb.Snap {
	s := pb.Snap{FV: fv, CV: cv, Meta: pb.Meta{InstanceID: "r", DatabaseName: inst.DBName, TimestampNano: tsIncoming}}
	for _, d := range []string{"d1", "d2", "d3"} {
		dd := pb.DBI{Name: d}
		for _, k := range []string{"a", "b", "c"} {
			v := []byte("remote-" + d + k)
			if valSize > 0 {
				v = bytes.Repeat([]byte("R"), valSize)
			}
			dd.Entries = append(dd.Entries, pb.KV{Key: []byte(k), Val: v, TS: tsIncoming + 5})
		}
		s.DBIs = append(s.DBIs, dd)
	}
	return s
}

func fullState(a *inst.Inst) string {
	return fmt.Sprintf("last=%d\n%s", a.Env.LastTxnID(), world.RawString(a.Env.RawDump()))
}

func loadRaw(a *inst.Inst, ctx context.Context, pbdata []byte) error {
	_, err := loadRawKeep(a, ctx, pbdata)
	return err
}

// loadRawKeep also returns the decoded update, so that the very same in-memory object can be delivered again.
func loadRawKeep(a *inst.Inst, ctx context.Context, pbdata []byte) (*snapshot.Update, error) {
	snap, err := snapshot.LoadData(gz(pbdata))
	if err != nil {
		return nil, fmt.Errorf("decode: %w", err)
	}
	name := snapshot.Name(inst.DBName, "r", "GX", time.Unix(0, int64(clock)))
	ni, _ := snapshot.ParseName(name)
	u := &snapshot.Update{Snapshot: snap, NameInfo: ni}
	_, _, err = a.S.LoadOnce(ctx, a.Env.Env, "r", *u, header.TxnID(a.Env.LastTxnID()))
	return u, err
}

func main() {
	flag.Parse()
	if v, ok := ev.ReplayRequested(); ok {
		fmt.Printf("  this check enumerates inputs; the replay artefact names the failing input directly: %v\n", v.Replay)
		return
	}
	r := ev.Start("C18")
	defer r.RecoverMain()
	defer world.Cleanup()
	r.Assume("a failure that is detected when the blob is decoded (before LoadOnce) trivially leaves the LMDB untouched; such cases are counted separately",
		"map-full: the map size is swept in page steps from 'fails at the first put' to 'succeeds'")
	verifhook.SetSkip(func(string) bool { return true })
	verifhook.SetNow(func(string, time.Time) time.Time { clock += 1000; return time.Unix(0, int64(clock)) })

	// ---------- (a) failure placement ----------
	pa := &ev.Part{Name: "a-failure-placement", Engine: "E1", Exhaustive: true}
	classes := map[string]int{}
	// reference: the state after a complete merge of the same snapshot on a twin instance without faults
	fullMerge := map[string]string{}
	reference := func(native bool, data []byte) string {
		k := fmt.Sprintf("%v/%x", native, len(data))
		if v, ok := fullMerge[k]; ok {
			return v
		}
		t, _ := target(setupOpt{native: native})
		defer t.Destroy()
		if err := loadRaw(t, context.Background(), data); err != nil {
			ev.Fatal("reference merge failed: %v", err)
		}
		fullMerge[k] = world.RawString(t.Env.RawDump())
		return fullMerge[k]
	}
	run := func(native bool, label string, o setupOpt, mk func() ([]byte, context.Context), expectErr bool) {
		o.native = native
		a, _ := target(o)
		defer a.Destroy()
		before := fullState(a)
		data, ctx := mk()
		if ctx == nil {
			ctx = context.Background()
		}
		var err error
		var upd *snapshot.Update
		ok := r.Guard(pa.Name, "panic-during-merge:"+label, map[string]any{"native": native, "case": label}, func() { upd, err = loadRawKeep(a, ctx, data) })
		pa.Executions++
		pa.Transitions++
		if !ok {
			return
		}
		after := fullState(a)
		mode := map[bool]string{true: "native", false: "shadow"}[native]
		rep := map[string]any{"native": native, "case": label}
		cls := label
		if i := strings.Index(cls, "@"); i > 0 {
			cls = cls[:i]
		}
		if err != nil {
			classes[mode+"/"+cls+"/refused"]++
			if after != before {
				r.Violate(pa.Name, "partial-merge-after-error:"+cls+":"+mode, fmt.Sprintf("%s (%s): LoadOnce returned %v but the LMDB changed:\n--- before\n%s--- after\n%s", label, mode, err, clip(before), clip(after)), rep)
			}
			// a merge that failed for a passing reason (cancellation) is tried again with the very same update object
			// (the receiver hands out the same decoded snapshot): it must then be merged completely
			if cls == "cancel" && upd != nil && o.garbageAt == "" {
				_, _, err2 := a.S.LoadOnce(context.Background(), a.Env.Env, "r", *upd, header.TxnID(a.Env.LastTxnID()))
				pa.Transitions++
				if err2 != nil {
					r.Violate(pa.Name, "redelivered-update-refused:"+mode, fmt.Sprintf("%s (%s): second LoadOnce of the same update: %v", label, mode, err2), rep)
				} else if want := reference(native, data); world.RawString(a.Env.RawDump()) != want {
					r.Violate(pa.Name, "redelivered-update-merged-partially:"+mode, fmt.Sprintf("%s (%s): the same update object merged again after the failed attempt does not give the fully merged state:\n--- got\n%s--- full merge\n%s", label, mode, clip(world.RawString(a.Env.RawDump())), clip(want)), rep)
				}
			}
		} else {
			classes[mode+"/"+cls+"/merged"]++
			if expectErr {
				sig := "failure-not-reported:" + cls + ":" + mode
				r.Violate(pa.Name, sig, fmt.Sprintf("%s (%s): LoadOnce returned nil; LMDB changed=%v", label, mode, after != before), rep)
			} else if o.garbageAt == "" {
				// success must mean the complete merge, not a part of it
				if want := reference(native, data); world.RawString(a.Env.RawDump()) != want {
					r.Violate(pa.Name, "partial-merge-reported-as-success:"+cls+":"+mode, fmt.Sprintf("%s (%s): LoadOnce returned nil but the LMDB is not the fully merged state:\n--- got\n%s--- full merge\n%s", label, mode, clip(world.RawString(a.Env.RawDump())), clip(want)), rep)
				}
			}
		}
	}
	for _, native := range []bool{true, false} {
		for j := 0; j < 3; j++ { // DBI position of the failure
			jj := j
			// transforms and flags
			for _, fv := range []uint32{3, 2, 1} {
				fv := fv
				run(native, fmt.Sprintf("unknown-transform-fv%d@dbi%d", fv, j), setupOpt{}, func() ([]byte, context.Context) {
					s := incoming(fv, 1, 0)
					s.DBIs[jj].Transform = "rot13"
					return s.ToMsg().Enc(), nil
				}, true)
			}
			// spellings that are close to a known transform are unknown transforms all the same
			for vi, tr := range []string{"DupSort_Hack_V1", " dupsort_hack_v1", "dupsort_hack_v1 ", " "} {
				tr := tr
				run(native, fmt.Sprintf("unknown-transform-spelling%d@dbi%d", vi, j), setupOpt{}, func() ([]byte, context.Context) {
					s := incoming(3, 1, 0)
					s.DBIs[jj].Transform = tr
					return s.ToMsg().Enc(), nil
				}, true)
			}
			run(native, fmt.Sprintf("dupsort-flag-without-transform@dbi%d", j), setupOpt{}, func() ([]byte, context.Context) {
				s := incoming(3, 1, 0)
				s.DBIs[jj].Flags = uint64(lmdb.DupSort)
				return s.ToMsg().Enc(), nil
			}, true)
			run(native, fmt.Sprintf("transform-without-dupsort-flag@dbi%d", j), setupOpt{}, func() ([]byte, context.Context) {
				s := incoming(3, 1, 0)
				s.DBIs[jj].Transform = snapshot.TransformDupSortHackV1
				return s.ToMsg().Enc(), nil
			}, true)
			if native {
				for _, fv := range []uint32{3, 2, 1} {
					fv := fv
					run(native, fmt.Sprintf("transform-in-native-mode-fv%d@dbi%d", fv, j), setupOpt{}, func() ([]byte, context.Context) {
						s := incoming(fv, 1, 0)
						s.DBIs[jj].Transform = snapshot.TransformDupSortHackV1
						s.DBIs[jj].Flags = uint64(lmdb.DupSort)
						return s.ToMsg().Enc(), nil
					}, true)
				}
			} else {
				for _, fv := range []uint32{1, 2} {
					fv := fv
					run(native, fmt.Sprintf("dbi-missing-locally-fv%d@dbi%d", fv, j), setupOpt{}, func() ([]byte, context.Context) {
						s := incoming(fv, 1, 0)
						s.DBIs[jj].Name = "brandnew"
						return s.ToMsg().Enc(), nil
					}, true)
				}
			}
			// malformed entries at every entry position
			for e := 0; e < 3; e++ {
				ee := e
				for _, kind := range []string{"wrong-wiretype", "truncated-kv", "unknown-field-overrun"} {
					kind := kind
					run(native, fmt.Sprintf("%s@dbi%d-entry%d", kind, j, e), setupOpt{}, func() ([]byte, context.Context) {
						m := incoming(3, 1, 0).ToMsg()
						// Snapshot fields: [fv, cv, meta, dbi0, dbi1, dbi2]; DBI fields: [name, e0, e1, e2]
						dm := m.F[3+jj].M
						km := dm.F[1+ee].M
						switch kind {
						case "wrong-wiretype":
							km.F[0].WT = pb.WTVarint // key as varint
							km.F[0].V = 7
						case "truncated-kv":
							km.F = append(km.F, pb.F{Num: 3, WT: pb.WTBytes, B: []byte{1, 2}}) // timestamp with a wrong type and size
						case "unknown-field-overrun":
							v := uint64(200)
							km.F = append(km.F, pb.F{Num: 9, WT: pb.WTBytes, B: []byte("xy"), LenOv: &v})
						}
						return m.Enc(), nil
					}, true)
				}
			}
			// stored value without a valid header under an incoming key
			if native {
				for _, k := range []string{"a", "b", "c"} {
					run(native, fmt.Sprintf("stored-value-without-header@dbi%d-key%s", j, k), setupOpt{garbageAt: fmt.Sprintf("d%d/%s", j+1, k)}, func() ([]byte, context.Context) {
						return incoming(3, 1, 0).ToMsg().Enc(), nil
					}, true)
				}
			}
		}
		// cancellation observed at the n-th check of the context
		for n := 1; n <= 20; n++ {
			nn := n
			run(native, fmt.Sprintf("cancel@check%02d", n), setupOpt{}, func() ([]byte, context.Context) {
				return incoming(3, 1, 0).ToMsg().Enc(), &countingCtx{Context: context.Background(), n: nn, ch: make(chan struct{})}
			}, false)
		}
		// map full: sweep the map size
		pages := 0
		for size := int64(48 << 10); size <= 400<<10; size += 4096 {
			sz := size
			pages++
			func() {
				defer func() {
					if p := recover(); p != nil {
						// the local content itself does not fit this map size: not a case
						classes["mapsize-too-small-for-setup"]++
					}
				}()
				run(native, fmt.Sprintf("map-full@%dk", sz>>10), setupOpt{mapSize: sz}, func() ([]byte, context.Context) {
					return incoming(3, 1, 5000).ToMsg().Enc(), nil
				}, false)
			}()
		}
	}
	var cl []string
	for k, v := range classes {
		cl = append(cl, fmt.Sprintf("%s:%d", k, v))
	}
	sort.Strings(cl)
	pa.States = int64(len(classes))
	pa.Distinct = int64(len(classes))
	pa.Bound = "native and shadow; failure at every DBI position (3) and entry position (3): unknown transform and transform in native mode for formats 1..3, transform/flag inconsistency both ways, DBI missing locally with format 1/2 (shadow), wrong wire type / truncated KV / overrunning unknown field, stored value without header under every key; cancellation between any two consecutive observations of the context (1st..20th Done/Err call); map size swept in 4 kB steps from 48 kB to 400 kB with 5 kB incoming values. Outcome classes: " + strings.Join(cl, " ")
	pa.Samples = []any{"shadow: truncated-kv@dbi2-entry1", "native: map-full@112k"}
	r.AddPart(pa)

	// ---------- (b) version matrix ----------
	pbm := &ev.Part{Name: "b-version-matrix", Engine: "E1", Exhaustive: true}
	vclasses := map[string]bool{}
	for _, native := range []bool{true, false} {
		for fv := uint32(0); fv <= 4; fv++ {
			for cv := uint32(0); cv <= 4; cv++ {
				for _, private := range []bool{false, true} {
					a, _ := target(setupOpt{native: native})
					before := fullState(a)
					s := pb.Snap{FV: fv, CV: cv, Meta: pb.Meta{InstanceID: "r", TimestampNano: tsIncoming}}
					tsIn := tsIncoming + 5
					// d1: a = live value (newer), b = empty value without flag (v1: deletion; v2+: live empty), c = flagged deletion
					s.DBIs = append(s.DBIs, pb.DBI{Name: "d1", Entries: []pb.KV{
						{Key: []byte("a"), Val: []byte("newer"), TS: tsIn},
						{Key: []byte("b"), Val: nil, TS: tsIn},
						{Key: []byte("c"), Val: nil, TS: tsIn, Flags: 1},
					}})
					if private {
						s.DBIs = append(s.DBIs, pb.DBI{Name: "_sync_meta", Entries: []pb.KV{{Key: []byte("x"), Val: []byte("y"), TS: 5}}},
							pb.DBI{Name: world.ShadowPrefix + "d2", Entries: []pb.KV{{Key: []byte("a"), Val: []byte("evil"), TS: tsIn + 50}}})
					}
					var err error
					mode := map[bool]string{true: "native", false: "shadow"}[native]
					label := fmt.Sprintf("%s fv=%d cv=%d private=%v", mode, fv, cv, private)
					rep := map[string]any{"native": native, "fv": fv, "cv": cv, "private": private}
					if !r.Guard(pbm.Name, "panic-during-merge", rep, func() { err = loadRaw(a, context.Background(), s.ToMsg().Enc()) }) {
						a.Destroy()
						continue
					}
					pbm.Executions++
					pbm.Transitions++
					wantAccept := fv >= 1 && cv <= 3
					vclasses[fmt.Sprintf("%v/%v", wantAccept, err == nil)] = true
					after := fullState(a)
					switch {
					case wantAccept && err != nil:
						r.Violate(pbm.Name, "supported-version-refused", fmt.Sprintf("%s: %v", label, err), rep)
					case !wantAccept && err == nil:
						sig := "unsupported-version-accepted"
						if cv > 3 {
							sig = "newer-compat-version-accepted"
						}
						r.Violate(pbm.Name, sig, label, rep)
					case err != nil:
						if after != before {
							r.Violate(pbm.Name, "refused-version-changed-lmdb", label, rep)
						}
					default:
						pick := world.PickNative
						if !native {
							pick = world.PickShadow
						}
						lc, lerr := world.HeaderLC(a.Env.RawDump(), pick)
						if lerr != nil {
							r.Violate(pbm.Name, "merged-content-malformed", label+": "+lerr.Error(), rep)
							break
						}
						d1 := lc["d1"]
						wantB := world.Ver{TS: tsIn, Deleted: fv < 2, Val: ""}
						if d1["a"].Val != "newer" || d1["a"].Deleted {
							r.Violate(pbm.Name, "version-semantics-live-value", fmt.Sprintf("%s: d1/a = %v", label, d1["a"]), rep)
						}
						if d1["b"] != wantB {
							sig := "version-semantics-empty-value"
							if fv < 2 {
								sig = "v1-empty-value-not-a-deletion"
							}
							r.Violate(pbm.Name, sig, fmt.Sprintf("%s: d1/b = %v, documented meaning: deleted=%v", label, d1["b"], fv < 2), rep)
						}
						if !d1["c"].Deleted {
							r.Violate(pbm.Name, "version-semantics-deleted-flag", fmt.Sprintf("%s: d1/c = %v", label, d1["c"]), rep)
						}
						if !native {
							app := world.PlainContent(a.Env.RawDump(), world.PickNative)["d1"]
							_, hasB := app["b"]
							_, hasC := app["c"]
							if app["a"] != "newer" || hasC || (fv < 2 && hasB) {
								r.Violate(pbm.Name, "version-semantics-application-view", fmt.Sprintf("%s: application d1 = %v", label, app), rep)
							}
						}
						// private DBIs in the snapshot change nothing
						for _, d := range a.Env.RawDump() {
							if d.Name == "_sync_meta" {
								r.Violate(pbm.Name, "private-dbi-from-snapshot-merged", label+": _sync_meta created", rep)
							}
							if d.Name == world.ShadowPrefix+"d2" {
								for _, e := range d.Entries {
									if bytes.Contains(e.Val, []byte("evil")) {
										r.Violate(pbm.Name, "private-dbi-from-snapshot-merged", label+": shadow DBI overwritten from the snapshot", rep)
									}
								}
							}
						}
					}
					a.Destroy()
				}
			}
		}
	}
	pbm.States = int64(len(vclasses))
	pbm.Distinct = int64(len(vclasses))
	pbm.Bound = "native and shadow x format version 0..4 x compat version 0..4 x private DBIs present/absent; entries: live value, empty value without flag, flagged deletion"
	pbm.Samples = []any{"shadow fv=1 cv=1 private=true: empty value means deletion"}
	r.AddPart(pbm)

	// ---------- (c) atomic visibility ----------
	pc := &ev.Part{Name: "c-atomic-visibility", Engine: "E3", Exhaustive: true}
	for _, native := range []bool{true, false} {
		for _, failAt := range []int{-1, 1, 2} { // -1: the merge succeeds
			a, _ := target(setupOpt{native: native})
			pre := world.RawString(a.Env.RawDump())
			observed := 0
			mode := map[bool]string{true: "native", false: "shadow"}[native]
			verifhook.SetYield(func(point, name string) {
				if point != "load.afterDBI" {
					return
				}
				observed++
				done := make(chan string, 1)
				go func() { done <- world.RawString(a.Env.RawDump()) }() // a concurrent reader (own goroutine, own read transaction)
				seen := <-done
				if seen != pre {
					r.Violate(pc.Name, "reader-sees-partial-merge:"+mode, fmt.Sprintf("a reader during the merge (after DBI #%d) sees content that is not the pre-merge image", observed), map[string]any{"native": native, "failAt": failAt})
				}
			})
			s := incoming(3, 1, 0)
			if failAt >= 0 {
				s.DBIs[failAt].Transform = "rot13"
			}
			err := loadRaw(a, context.Background(), s.ToMsg().Enc())
			verifhook.SetYield(nil)
			post := world.RawString(a.Env.RawDump())
			pc.Executions++
			pc.Transitions += int64(observed)
			if failAt >= 0 {
				if err == nil || post != pre {
					r.Violate(pc.Name, "failed-merge-visible:"+mode, fmt.Sprintf("err=%v changed=%v", err, post != pre), nil)
				}
			} else {
				if err != nil || post == pre {
					r.Violate(pc.Name, "successful-merge-not-visible:"+mode, fmt.Sprintf("err=%v", err), nil)
				}
				if observed != 3 {
					r.Violate(pc.Name, "harness-hook-not-reached", fmt.Sprintf("%d observations", observed), nil)
				}
			}
			a.Destroy()
		}
	}
	pc.States = 6
	pc.Distinct = 2
	pc.Bound = "native and shadow x {merge succeeds, fails at DBI 2, fails at DBI 3}: a reader goroutine takes a read transaction at the hook after every DBI of the merge"
	pc.Samples = []any{"shadow, failure at DBI 3: readers after DBI 1 and 2 see the pre-merge image"}
	r.AddPart(pc)

	r.Finish()
}

func clip(s string) string {
	if len(s) > 1500 {
		return s[:1500] + "...\n"
	}
	return s
}
