// C09 — every committed local change gets published.
// Engine E3, sync-loop scenario: the real Syncer.Sync loop, application
// commits offered at every decision point of the loop (deviation-bounded DFS).
package main

import (
	"encoding/json"
	"flag"
	"fmt"
	"os"
	"sort"
	"strings"
	"time"

	"verif/lib/ev"
	"verif/lib/explore"
	"verif/lib/loopworld"
	"verif/lib/par"
	"verif/lib/restartworld"
	"verif/lib/world"
	"verif/lib/xrun"
)

func run(param json.RawMessage, ctx *explore.Ctx, viols *[]xrun.Viol) string {
	var cfg loopworld.Cfg
	_ = json.Unmarshal(param, &cfg)
	res := loopworld.Run(cfg, ctx)
	for _, v := range res.Viols {
		if !loopworld.Judged(v.Sig, "c09") {
			continue // judged by their own checks
		}
		*viols = append(*viols, xrun.Viol{Sig: v.Sig, Msg: v.Msg})
	}
	return fmt.Sprintf("%s/stores=%d/loads=%d", res.Outcome, res.Stores, res.Loads)
}

// runRestart: an instance restarted on an emptied LMDB with its old snapshot still in the bucket; only the
// publication oracle (c09:) is judged here (C05 judges the rest).
func runRestart(param json.RawMessage, ctx *explore.Ctx, viols *[]xrun.Viol) string {
	var cfg restartworld.Cfg
	_ = json.Unmarshal(param, &cfg)
	res := restartworld.Run(cfg, ctx)
	for _, v := range res.Viols {
		if strings.HasPrefix(v.Sig, "c09:") {
			*viols = append(*viols, xrun.Viol{Sig: v.Sig, Msg: v.Msg})
		}
	}
	return res.Outcome
}

func main() {
	flag.Parse()
	par.ServeIfWorker(map[string]par.Handler{"x": xrun.Handler(run), "restart": xrun.Handler(runRestart)})
	if v, ok := ev.ReplayRequested(); ok {
		xrun.Replay(v, run)
		return
	}
	if os.Getenv("VERIF_DEBUG") != "" {
		cfg := loopworld.Cfg{Native: os.Getenv("VERIF_DEBUG") == "native", Remote2: true, Straddle: true, MaxVisits: 2}
		ctx := explore.NewCtx(nil)
		t0 := time.Now()
		res := loopworld.Run(cfg, ctx)
		fmt.Printf("outcome=%s steps=%d stores=%d loads=%d viols=%v t=%v\n", res.Outcome, res.Steps, res.Stores, res.Loads, res.Viols, time.Since(t0))
		if os.Getenv("VERIF_DEBUG_KIDS") != "" {
			var st explore.Stats
			kids := explore.RunOne(explore.Node{}, 1, func(c *explore.Ctx) string { return loopworld.Run(cfg, c).Outcome }, &st)
			fmt.Println("kids:", len(kids))
			if os.Getenv("VERIF_DEBUG_KIDS") == "deep" {
				var st2 explore.Stats
				found := 0
				explore.Budgeted(kids, 2, 3000, func(c *explore.Ctx) string {
					res := loopworld.Run(cfg, c)
					if res.Steps > 150 && found < 3 {
						found++
						fmt.Printf("LONG steps=%d stores=%d loads=%d outcome=%s deviations=%v\n", res.Steps, res.Stores, res.Loads, res.Outcome, c.Deviations())
						tl := c.TraceLabels()
						fmt.Println(strings.Join(tl[:min(len(tl), 140)], " ; "))
					}
					return res.Outcome
				}, &st2)
				fmt.Println("explored", st2.Executions, "max", st2.MaxSteps)
				return
			}
			for _, k := range kids {
				c := explore.NewCtx(k.Prefix)
				t1 := time.Now()
				res := loopworld.Run(cfg, c)
				if res.Steps > 80 || os.Getenv("VERIF_DEBUG_KIDS") == "all" {
					fmt.Printf("%-50s steps=%d stores=%d loads=%d outcome=%s t=%v\n", k.Prefix[len(k.Prefix)-1].Label, res.Steps, res.Stores, res.Loads, res.Outcome, time.Since(t1))
					if res.Steps > 300 {
						fmt.Println(strings.Join(c.TraceLabels()[len(k.Prefix)-1:min(len(c.Trace), len(k.Prefix)+60)], " ; "))
						return
					}
				}
			}
			return
		}
		if os.Getenv("VERIF_DEBUG_REPEAT") == "" {
			for i, st := range ctx.Trace {
				fmt.Printf("%3d %-40s options=%v\n", i, st.Label, st.Options)
			}
			return
		}
		ref := strings.Join(ctx.TraceLabels(), ";")
		for n := 0; n < 400; n++ {
			c2 := explore.NewCtx(nil)
			loopworld.Run(cfg, c2)
			if got := strings.Join(c2.TraceLabels(), ";"); got != ref {
				fmt.Printf("run %d differs:\n ref %s\n got %s\n", n, ref, got)
				return
			}
		}
		fmt.Println("400 identical runs")
		return
	}
	r := ev.Start("C09")
	defer r.RecoverMain()
	defer world.Cleanup()
	r.SetBudget(ev.Pick(r, 480*time.Second, 60*time.Minute))
	r.Assume("oracle: when the loop has been idle for 3 iterations the newest own snapshot contains, for every key the application wrote, a version at least as new as the last commit; the forced periodic snapshot is disabled so it cannot mask a lost change; Store may fail up to 2 times in a row (retry budget 3)",
		"steady state: initial content was written and mirrored by a previous complete sync step; all remote versions are older than anything the application writes, so any change of an application-written key is a violation",
		"goroutine scheduling follows a fixed policy (background downloads run to completion before the loop continues); the explored choices are the environment's answers: application commits at every loop hook, straddling application transactions, remote snapshot arrival")
	bound := ev.Pick(r, 2, 3)
	type part struct {
		name string
		cfg  loopworld.Cfg
	}
	var parts []part
	for _, native := range []bool{true, false} {
		name := map[bool]string{true: "native", false: "shadow"}[native]
		parts = append(parts, part{"loop-" + name, loopworld.Cfg{Native: native, Remote2: true, NoopRemote: true, Straddle: true, LoopFirst: r.Thorough(), MaxVisits: 2, StoreFaults: 2}})
	}
	for _, native := range []bool{true, false} {
		name := map[bool]string{true: "native", false: "shadow"}[native]
		// two remote instances whose snapshots wait in the receiver together: one loop iteration merges several snapshots
		parts = append(parts, part{"loop-" + name + "-two-remotes", loopworld.Cfg{Native: native, Remote2: true, TwoRemotes: true, Straddle: r.Thorough(), LoopFirst: r.Thorough(), MaxVisits: 2}})
	}
	for _, native := range []bool{true, false} {
		name := map[bool]string{true: "native", false: "shadow"}[native]
		// a whole upload fails (storage_retry_count exhausted): Sync must give up with an error (the process is restarted
		// by its supervisor), it must not carry on as if the snapshot had been stored
		parts = append(parts, part{"loop-" + name + "-store-outage", loopworld.Cfg{Native: native, RetryCount: 1, StoreFaults: 1, MaxVisits: 1, AppOps: []string{"put-b", "del-a"}}})
	}
	for _, native := range []bool{true, false} {
		name := map[bool]string{true: "native", false: "shadow"}[native]
		// transient download failures (within the downloader's retry loop), e.g. of the own snapshot after a restart
		parts = append(parts, part{"loop-" + name + "-load-faults", loopworld.Cfg{Native: native, LoadFaults: true, MaxVisits: 1, AppOps: []string{"put-b", "del-a"}}})
	}
	for _, native := range []bool{true, false} {
		name := map[bool]string{true: "native", false: "shadow"}[native]
		// an instance started on an empty LMDB (no snapshot of its own): its first commits must be published too
		parts = append(parts, part{"loop-" + name + "-fresh-instance", loopworld.Cfg{Native: native, EmptyStart: true, Remote2: true, MaxVisits: 1, AppOps: []string{"put-b", "newdbi"}}})
	}
	for _, native := range []bool{true, false} {
		name := map[bool]string{true: "native", false: "shadow"}[native]
		// the tomb sweeper is enabled; the application also writes a new key with an empty value
		ops := []string{"put-b", "del-a"}
		if native {
			ops = append(ops, "put-empty-c") // (shadow mode loses live empty values anyway: known finding of C01/C11/C20)
		}
		parts = append(parts, part{"loop-" + name + "-sweeper-enabled", loopworld.Cfg{Native: native, Sweeper: true, Remote2: true, MaxVisits: 1, AppOps: ops}})
		// ... and its timer fires (an environment answer) while a stale deletion marker exists: the sweeper's own write
		// transaction lands between application commits and the loop's poll, and must not swallow them
		parts = append(parts, part{"loop-" + name + "-sweeper-fires", loopworld.Cfg{Native: native, Sweeper: true, SweeperFires: true, MaxVisits: 1, AppOps: []string{"del-a", "put-b"}}})
	}
	// cheapest parts first: each part may use an equal share of what is left, so the expensive ones get what the cheap ones save
	{
		var small, large []part
		for _, p := range parts {
			if strings.HasSuffix(p.name, "-native") || strings.HasSuffix(p.name, "-shadow") {
				large = append(large, p)
			} else {
				small = append(small, p)
			}
		}
		sort.SliceStable(small, func(i, j int) bool {
			return strings.Contains(small[i].name, "two-remotes") == false && strings.Contains(small[j].name, "two-remotes")
		})
		parts = append(small, large...)
	}
	for _, native := range []bool{true, false} {
		name := "restart-on-emptied-lmdb-" + map[bool]string{true: "native", false: "shadow"}[native]
		restore := r.SubBudget(ev.Pick(r, 40*time.Second, 5*time.Minute))
		xrun.Explore(r, name, xrun.Opts{Kind: "restart", Bound: ev.Pick(r, 1, 2), Budget: 30, Recycle: 4,
			Param: restartworld.Cfg{Native: native, StartEmpty: true, LongHistory: true, MaxLives: 1}})
		restore()
	}
	for i, p := range parts {
		restore := r.SubBudget(r.Remaining() / time.Duration(len(parts)-i))
		xrun.Explore(r, p.name, xrun.Opts{Kind: "x", Bound: bound, Budget: 30, Recycle: 4, Param: p.cfg})
		restore()
	}
	r.Finish()
}
