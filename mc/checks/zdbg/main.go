// zdbg prints the default execution (and, with -kids, every one-deviation execution) of a loop scenario.
// Development aid, not a registered check.  usage: zdbg -cfg '<json of loopworld.Cfg>' [-kids] [-follow "a ; b ; c"]
package main

import (
	"encoding/json"
	"flag"
	"fmt"
	"strings"

	"verif/lib/explore"
	"verif/lib/loopworld"
	"verif/lib/recvworld"
	"verif/lib/world"
)

func main() {
	worldName := flag.String("world", "loop", "loop | recv")
	cfgJSON := flag.String("cfg", "{}", "loopworld.Cfg / recvworld.Cfg as JSON")
	kids := flag.Bool("kids", false, "also run every execution with one deviation")
	follow := flag.String("follow", "", "choices to follow, separated by ' ; '")
	bound := flag.Int("bound", 1, "deviation bound for -kids in the recv world")
	flag.Parse()
	defer world.Cleanup()
	if *worldName == "recv" {
		var cfg recvworld.Cfg
		if err := json.Unmarshal([]byte(*cfgJSON), &cfg); err != nil {
			panic(err)
		}
		run := func(c *explore.Ctx) string {
			res := recvworld.Run(cfg, c)
			fmt.Printf("outcome=%s viols=%v\n  %s\n", res.Outcome, res.Viols, strings.Join(c.TraceLabels(), " ; "))
			return res.Outcome
		}
		ctx := explore.NewCtx(nil)
		if *follow != "" {
			ctx.Follow = strings.Split(*follow, " ; ")
		}
		run(ctx)
		if *kids {
			var st explore.Stats
			explore.Subtree(explore.Node{}, *bound, run, nil, &st)
			fmt.Println("executions", st.Executions)
		}
		return
	}
	var cfg loopworld.Cfg
	if err := json.Unmarshal([]byte(*cfgJSON), &cfg); err != nil {
		panic(err)
	}
	show := func(ctx *explore.Ctx, res loopworld.Result) {
		fmt.Printf("outcome=%s steps=%d stores=%d loads=%d viols=%v\n  %s\n", res.Outcome, res.Steps, res.Stores, res.Loads, res.Viols, strings.Join(ctx.TraceLabels(), " ; "))
	}
	ctx := explore.NewCtx(nil)
	if *follow != "" {
		ctx.Follow = strings.Split(*follow, " ; ")
	}
	res := loopworld.Run(cfg, ctx)
	show(ctx, res)
	if *kids {
		var st explore.Stats
		for _, k := range explore.RunOne(explore.Node{}, 1, func(c *explore.Ctx) string { return loopworld.Run(cfg, c).Outcome }, &st) {
			c := explore.NewCtx(k.Prefix)
			r2 := loopworld.Run(cfg, c)
			fmt.Printf("--- deviation %s\n", k.Prefix[len(k.Prefix)-1].Label)
			show(c, r2)
		}
	}
}
