// C04 — deletions propagate and deleted keys are not resurrected.
// (a) engine E2: BFS as in C01, invariants evaluated after every event.
// (b) engine E1: sweeper configuration space.
// (c) engine E1: stale markers do not bounce, through the real LoadOnce with the sweeper enabled.
package main

import (
	"encoding/json"
	"flag"
	"fmt"
	"math"
	"strconv"
	"strings"
	"time"

	"github.com/PowerDNS/lightningstream/config"
	"github.com/PowerDNS/lightningstream/utils/verifhook"
	"github.com/PowerDNS/lmdb-go/lmdb"

	"verif/lib/ev"
	"verif/lib/fleet"
	"verif/lib/inst"
	"verif/lib/par"
	"verif/lib/statemc"
	"verif/lib/world"
)

// stepInvariants compares the world before and after one event.
func stepInvariants(f *fleet.Fleet, e string, before []world.LC, appBefore []map[string]map[string]string, blobsBefore []string) []statemc.Viol {
	var out []statemc.Viol
	n := len(f.I)
	writer := -1
	if e[0] == 'P' || e[0] == 'D' {
		// an application's own write is not Lightning Stream's doing (it may overwrite its own marker)
		writer, _ = strconv.Atoi(strings.SplitN(e[1:], ":", 2)[0])
	}
	for i := 0; i < n; i++ {
		if i == writer {
			continue
		}
		after := f.LC(i)
		for d, m := range before[i] {
			for k, b := range m {
				a, ok := after[d][k]
				if !ok {
					out = append(out, statemc.Viol{Sig: "entry-vanished", Msg: fmt.Sprintf("instance %c: %s/%s was %v before %s and is gone afterwards (sweeper disabled)", 'a'+i, d, k, b, e)})
					continue
				}
				if a.TS < b.TS {
					out = append(out, statemc.Viol{Sig: "moved-backwards", Msg: fmt.Sprintf("instance %c: %s/%s went from %v to %v by %s", 'a'+i, d, k, b, a, e)})
				}
				if b.Deleted && !a.Deleted && a.TS <= b.TS {
					out = append(out, statemc.Viol{Sig: "resurrected", Msg: fmt.Sprintf("instance %c: %s/%s deleted at %d is live again as %v after %s", 'a'+i, d, k, b.TS, a, e)})
				}
			}
		}
	}
	switch e[0] {
	case 'L':
		parts := strings.Split(e[1:], ":")
		i, _ := strconv.Atoi(parts[0])
		bi, _ := strconv.Atoi(parts[1])
		data, _ := f.B.Get(blobsBefore[bi])
		blc, _, err := fleet.SnapLC(data)
		if err != nil {
			return append(out, statemc.Viol{Sig: "own-snapshot-undecodable", Msg: err.Error()})
		}
		after := f.LC(i)
		for d, m := range blc {
			for k, bv := range m {
				prev, had := before[i][d][k]
				a, ok := after[d][k]
				if !f.Cfg.Native {
					// shadow mode: the load first captures local changes, which legitimately produces a newer local
					// version; the rule applies only to keys without an uncaptured local change
					av, aok := appBefore[i][d][k]
					captured := (had && !prev.Deleted && aok && av == prev.Val) || ((!had || prev.Deleted) && !aok)
					if !captured {
						continue
					}
				}
				switch {
				case !had || bv.TS > prev.TS:
					if !ok || a != bv {
						sig := "newer-version-not-merged"
						if bv.Deleted {
							sig = "deletion-not-propagated"
						}
						out = append(out, statemc.Viol{Sig: sig, Msg: fmt.Sprintf("instance %c had %v(present=%v) for %s/%s, merged snapshot carries %v, result %v(present=%v)", 'a'+i, prev, had, d, k, bv, a, ok)})
					}
				case bv.TS < prev.TS:
					if a != prev {
						out = append(out, statemc.Viol{Sig: "older-version-merged", Msg: fmt.Sprintf("instance %c had %v for %s/%s, older snapshot version %v changed it to %v", 'a'+i, prev, d, k, bv, a)})
					}
				}
			}
		}
		out = append(out, mirror(f, i)...)
	case 'S':
		i, _ := strconv.Atoi(e[1 : len(e)-1])
		name := f.Newest(i)
		data, _ := f.B.Get(name)
		slc, _, err := fleet.SnapLC(data)
		if err != nil {
			return append(out, statemc.Viol{Sig: "own-snapshot-undecodable", Msg: err.Error()})
		}
		if lc := f.LC(i); !lc.Equal(slc) {
			sig := "snapshot-differs-from-lmdb"
			if missingOnlyMarkers(lc, slc) {
				sig = "snapshot-lacks-deletion-markers"
			}
			out = append(out, statemc.Viol{Sig: sig, Msg: fmt.Sprintf("instance %c uploaded %s but holds %s", 'a'+i, slc, lc)})
		}
		out = append(out, mirror(f, i)...)
	}
	return out
}

func missingOnlyMarkers(lmdbLC, snap world.LC) bool {
	miss := false
	for d, m := range lmdbLC {
		for k, v := range m {
			s, ok := snap[d][k]
			if ok && s == v {
				continue
			}
			if !ok && v.Deleted {
				miss = true
				continue
			}
			return false
		}
	}
	return miss
}

// mirror: in shadow mode, right after a sync step of instance i its application DBIs hold exactly the live entries.
func mirror(f *fleet.Fleet, i int) []statemc.Viol {
	if f.Cfg.Native {
		return nil
	}
	var out []statemc.Viol
	lc := f.LC(i)
	app := f.App(i)
	for d, m := range lc {
		for k, v := range m {
			av, ok := app[d][k]
			if v.Deleted && ok {
				out = append(out, statemc.Viol{Sig: "deleted-key-visible-to-application", Msg: fmt.Sprintf("instance %c: %s/%s is %v but the application still sees %q", 'a'+i, d, k, v, av)})
			}
			if !v.Deleted && (!ok || av != v.Val) && v.Val != "" {
				out = append(out, statemc.Viol{Sig: "live-key-not-visible-to-application", Msg: fmt.Sprintf("instance %c: %s/%s is %v but the application sees (%q, present=%v)", 'a'+i, d, k, v, av, ok)})
			}
		}
	}
	for d, m := range app {
		for k := range m {
			if _, ok := lc[d][k]; !ok {
				out = append(out, statemc.Viol{Sig: "application-key-not-tracked", Msg: fmt.Sprintf("instance %c: application key %s/%s has no entry in the merged state after a sync step", 'a'+i, d, k)})
			}
		}
	}
	return out
}

func expand(hist []string, param json.RawMessage) statemc.Result {
	var cfg fleet.Cfg
	_ = json.Unmarshal(param, &cfg)
	f, err := fleet.Replay(cfg, hist)
	if err != nil {
		f.Close()
		return statemc.Result{Err: "replay failed: " + err.Error()}
	}
	evs := f.Enabled()
	f.Close()
	var res statemc.Result
	for _, e := range evs {
		g, err := fleet.Replay(cfg, hist)
		if err != nil {
			g.Close()
			return statemc.Result{Err: "replay diverged: " + err.Error()}
		}
		before := make([]world.LC, len(g.I))
		appBefore := make([]map[string]map[string]string, len(g.I))
		for i := range g.I {
			before[i] = g.LC(i)
			appBefore[i] = g.App(i)
		}
		blobs := g.Blobs()
		s := statemc.Succ{Ev: e}
		if err := g.Apply(e); err != nil {
			if ie, ok := err.(fleet.ImplError); ok {
				s.Viols = append(s.Viols, statemc.Viol{Sig: "impl-error-" + string(e[0]), Msg: ie.Error()})
				s.Stop = true
				s.Key = fleet.Hash("err:" + strings.Join(hist, " ") + e)
				res.Succs = append(res.Succs, s)
				g.Close()
				continue
			}
			g.Close()
			return statemc.Result{Err: err.Error()}
		}
		s.Key = fleet.Hash(g.Canon())
		s.Viols = stepInvariants(g, e, before, appBefore, blobs)
		s.Term = fleet.Hash(g.LC(0).String())
		g.Close()
		res.Succs = append(res.Succs, s)
	}
	return res
}

func main() {
	flag.Parse()
	par.ServeIfWorker(map[string]par.Handler{"x": statemc.Handler(expand)})
	if v, ok := ev.ReplayRequested(); ok {
		statemc.Replay(v, expand)
		return
	}
	r := ev.Start("C04")
	defer r.RecoverMain()
	defer world.Cleanup()
	r.SetBudget(ev.Pick(r, 420*time.Second, 30*time.Minute))
	r.Assume("part (a): sweeper disabled, as in C01; shadow mode steady state", "part (c): the clock seam fixes 'now' of the load; the sweep is represented by its cutoff t_sweep - retention")

	// ---------- (a) ----------
	type run struct {
		name  string
		cfg   fleet.Cfg
		depth int
	}
	d := ev.Pick(r, 0, 1)
	runs := []run{
		{"a-native-2inst", fleet.Cfg{N: 2, Native: true, Keys: []string{"d/a"}, Vals: []string{"", "x"}, TS0: true, NoTick: true, Silent: -1}, 5 + d},
		{"a-shadow-2inst", fleet.Cfg{N: 2, Native: false, Keys: []string{"d/a"}, Vals: []string{"x", "y"}, Silent: -1}, 5 + d},
		{"a-native-2inst-deep", fleet.Cfg{N: 2, Native: true, Keys: []string{"d/a"}, Vals: []string{"x"}, Silent: -1}, 8 + 2*d},
		{"a-shadow-2inst-deep", fleet.Cfg{N: 2, Native: false, Keys: []string{"d/a"}, Vals: []string{"x"}, Silent: -1}, 8 + 2*d},
		{"a-native-3inst", fleet.Cfg{N: 3, Native: true, Keys: []string{"d/a"}, Vals: []string{"x"}, Silent: -1}, 4 + d},
		{"a-shadow-3inst", fleet.Cfg{N: 3, Native: false, Keys: []string{"d/a"}, Vals: []string{"x"}, Silent: -1}, 4 + d},
	}
	for ri, rn := range runs {
		if r.Expired() {
			r.AddPart(&ev.Part{Name: rn.name, Engine: "E2", Exhaustive: false, Bound: "not started: time budget used up"})
			continue
		}
		restoreBudget := r.SubBudget(r.Remaining() / time.Duration(len(runs)-ri+2)) // +2: the parts after this loop
		st := statemc.Run(r, rn.name, "x", rn.cfg, rn.depth, 0)
		restoreBudget()
		cj, _ := json.Marshal(rn.cfg)
		r.AddPart(&ev.Part{Name: rn.name, Engine: "E2", States: st.States, Transitions: st.Transitions, Executions: st.Transitions, Distinct: int64(st.Terminals), Exhaustive: st.Exhaustive,
			Bound:   fmt.Sprintf("BFS depth %d of %d completed (frontier sizes %v); invariants after every event; cfg %s", st.Depth, rn.depth, st.PerDepth, cj),
			Samples: st.Samples})
	}

	// ---------- (b) ----------
	pb := &ev.Part{Name: "b-config-space", Engine: "E1", Exhaustive: true}
	days := []float32{0, 1e-4, 0.5, 1, 2, 370, 3650, 35000, 36500, 100000}
	bclasses := map[string]bool{}
	for _, dd := range days {
		base := config.Sweeper{RetentionDays: dd}
		ret := base.RetentionDuration()
		cut := []time.Duration{-time.Hour, -1, 0, 1, ret / 100, ret / 2, ret/4*3 - 1, ret / 4 * 3, ret/4*3 + 1, ret, ret - 1, time.Duration(math.MaxInt64), time.Duration(math.MaxInt64) / 2}
		if ret < time.Duration(math.MaxInt64)/2 {
			cut = append(cut, ret*2)
		}
		for _, c := range cut {
			sw := config.Sweeper{Enabled: true, RetentionDays: dd, RetentionLoadCutoffDuration: c}
			R := sw.RetentionDuration()
			Rm := sw.RetentionDurationMinusCutoff()
			pb.Executions++
			pb.Transitions++
			rep := map[string]any{"retention_days": dd, "retention_load_cutoff_duration_ns": int64(c)}
			bclasses[fmt.Sprintf("%v/%v", c > 0, Rm < R)] = true
			if R < 0 {
				// a retention that does not fit the duration type is outside the configuration space
				bclasses["overflow-retention"] = true
				continue
			}
			if Rm > R {
				sig := "load-retention-longer-than-sweeper-retention"
				if R > time.Duration(math.MaxInt64)/3 {
					sig = "load-retention-longer-than-sweeper-retention-overflow-3x"
				}
				r.Violate(pb.Name, sig, fmt.Sprintf("retention_days=%v cutoff=%v: RetentionDuration=%v < RetentionDurationMinusCutoff=%v: markers the sweeper already removed would be re-created", dd, c, R, Rm), rep)
			}
			if R > 0 && Rm <= 0 {
				r.Violate(pb.Name, "load-retention-not-positive", fmt.Sprintf("retention_days=%v cutoff=%v: RetentionDurationMinusCutoff=%v", dd, c, Rm), rep)
			}
			if R > 0 && Rm < R/4-1 {
				r.Violate(pb.Name, "load-retention-below-quarter", fmt.Sprintf("retention_days=%v cutoff=%v: %v < 25%% of %v", dd, c, Rm, R), rep)
			}
		}
	}
	pb.States = pb.Executions
	pb.Distinct = int64(len(bclasses))
	pb.Bound = "retention_days {0,1e-4,0.5,1,2,370,3650,35000,36500,100000} x retention_load_cutoff_duration {-1h,-1ns,0,1ns,1%,50%,75%-1,75%,75%+1,100%-1,100%,200%,maxint64/2,maxint64}"
	pb.Samples = []any{"retention_days=370 cutoff=277.5d+1ns"}
	r.AddPart(pb)

	// ---------- (c) ----------
	pc := &ev.Part{Name: "c-no-bounce", Engine: "E1", Exhaustive: true}
	cclasses := map[string]bool{}
	var clock uint64
	verifhook.SetNow(func(site string, t time.Time) time.Time { return time.Unix(0, int64(clock)) })
	verifhook.SetSkip(func(site string) bool { return true })
	// The logical clock is anchored one hour ahead of the real clock, so that code reading the real clock
	// directly (no seam) still sees times consistent with the scenario (within that hour).
	tLoad := uint64(time.Now().Add(time.Hour).UnixNano())
	for _, dd := range []float32{0.5, 1, 370} {
		base := config.Sweeper{RetentionDays: dd}
		ret := base.RetentionDuration()
		for _, c := range []time.Duration{-time.Hour, 0, 1, ret / 100, ret / 2, ret / 4 * 3, ret, ret * 2} {
			sw := config.Sweeper{Enabled: true, RetentionDays: dd, RetentionLoadCutoffDuration: c, Interval: time.Hour, FirstInterval: time.Hour, LockDuration: time.Second, ReleaseDuration: time.Second}
			R := uint64(sw.RetentionDuration())
			Rm := uint64(sw.RetentionDurationMinusCutoff())
			for _, native := range []bool{true, false} {
				for _, sweepLag := range []uint64{0, 1, uint64(time.Hour)} { // t_sweep = t_load - lag
					tSweep := tLoad - sweepLag
					sweepCut := tSweep - R
					loadCut := tLoad - Rm
					grid := []uint64{sweepCut - uint64(time.Hour), sweepCut - 1, sweepCut, sweepCut + 1, loadCut - 1, loadCut, loadCut + 1, loadCut + uint64(time.Hour), tLoad - 1}
					for _, mts := range grid {
						for _, existing := range []string{"absent", "older-live", "newer-live"} {
							bkt := world.NewBucket()
							b := inst.New("b", bkt, inst.Opt{Native: true, Sweeper: &sw})
							a := inst.New("a", bkt, inst.Opt{Native: native, Sweeper: &sw})
							// B holds a marker for k with timestamp mts (and a live key so the DBI is not trivial)
							b.AppTxn(func(txn *lmdb.Txn) error {
								inst.NativePut(txn, "d", []byte("k"), mts, true, nil)
								inst.NativePut(txn, "d", []byte("other"), mts, false, []byte("v"))
								return nil
							})
							clock = tLoad - 10
							if _, err := b.Send(); err != nil {
								ev.Fatal("send: %v", err)
							}
							if existing != "absent" {
								ets := mts - 5
								if existing == "newer-live" {
									ets = mts + 5
								}
								if native {
									a.AppTxn(func(txn *lmdb.Txn) error {
										inst.NativePut(txn, "d", []byte("k"), ets, false, []byte("mine"))
										return nil
									})
								} else {
									// shadow: the entry lives in the shadow DBI with that timestamp, application DBI has the key
									a.AppTxn(func(txn *lmdb.Txn) error {
										inst.PlainPut(txn, "d", 0, []byte("k"), []byte("mine"))
										inst.NativePut(txn, world.ShadowPrefix+"d", []byte("k"), ets, false, []byte("mine"))
										return nil
									})
								}
							} else if !native {
								a.AppTxn(func(txn *lmdb.Txn) error {
									inst.PlainPut(txn, "d", 0, []byte("zz"), []byte("1"))
									inst.NativePut(txn, world.ShadowPrefix+"d", []byte("zz"), 7, false, []byte("1"))
									return nil
								})
							}
							clock = tLoad
							names := bkt.Names()
							data, _ := bkt.Get(names[0])
							// markers travel in every snapshot for as long as they exist (B has not swept it)
							if slc, _, err := fleet.SnapLC(data); err != nil {
								ev.Fatal("snapshot of b: %v", err)
							} else if m, ok := slc["d"]["k"]; !ok || !m.Deleted || m.TS != mts {
								r.Violate(pc.Name, "marker-missing-from-uploaded-snapshot", fmt.Sprintf("retention_days=%v cutoff=%v: instance b holds a deletion marker for k at t_load%+d ns, its snapshot has %v (present=%v)", dd, c, int64(mts-tLoad), m, ok),
									map[string]any{"retention_days": dd, "cutoff_ns": int64(c), "marker_ts": mts, "t_load": tLoad})
							}
							_, _, err := a.Load(names[0], data, 1<<62)
							pc.Executions++
							pc.Transitions += 3
							rep := map[string]any{"retention_days": dd, "cutoff_ns": int64(c), "native": native, "marker_ts": mts, "t_sweep": tSweep, "t_load": tLoad, "existing": existing}
							if err != nil {
								r.Violate(pc.Name, "load-error", err.Error(), rep)
								a.Destroy()
								b.Destroy()
								continue
							}
							pick := world.PickNative
							if !native {
								pick = world.PickShadow
							}
							lc, err := world.HeaderLC(a.Env.RawDump(), pick)
							if err != nil {
								ev.Fatal("%v", err)
							}
							got, present := lc["d"]["k"]
							cls := fmt.Sprintf("%s/%v/%v", existing, mts < sweepCut, mts >= loadCut)
							cclasses[cls] = true
							desc := fmt.Sprintf("retention_days=%v cutoff=%v native=%v t_sweep=t_load-%d marker@(sweepcut%+d, loadcut%+d) existing=%s: result %v present=%v", dd, c, native, sweepLag, int64(mts-sweepCut), int64(mts-loadCut), existing, got, present)
							switch existing {
							case "absent":
								if mts < sweepCut && present {
									r.Violate(pc.Name, "swept-marker-recreated", desc, rep)
								}
								if mts >= loadCut && !(present && got.Deleted && got.TS == mts) {
									r.Violate(pc.Name, "fresh-marker-not-created", desc, rep)
								}
							case "older-live":
								if !(present && got.Deleted && got.TS == mts) {
									r.Violate(pc.Name, "marker-did-not-delete-older-entry", desc, rep)
								}
								if !native {
									if _, ok := world.PlainContent(a.Env.RawDump(), world.PickNative)["d"]["k"]; ok {
										r.Violate(pc.Name, "marker-did-not-remove-key-from-application", desc, rep)
									}
								}
							case "newer-live":
								if !(present && !got.Deleted && got.Val == "mine") {
									r.Violate(pc.Name, "older-marker-destroyed-newer-entry", desc, rep)
								}
							}
							if o, ok := lc["d"]["other"]; !ok || o.Val != "v" {
								r.Violate(pc.Name, "live-entry-not-merged", desc, rep)
							}
							a.Destroy()
							b.Destroy()
						}
					}
				}
			}
		}
	}
	verifhook.SetNow(nil)
	pc.States = int64(len(cclasses))
	pc.Distinct = int64(len(cclasses))
	pc.Bound = "retention_days {0.5,1,370} x cutoff {-1h,0,1ns,1%,50%,75%,100%,200%} x native/shadow x t_sweep in {t_load, -1ns, -1h} x marker timestamp on a 9-point grid around both cutoffs x local key {absent, older live, newer live}; real SendOnce on B and LoadOnce on A, both with the sweeper enabled; the marker must be in B's snapshot"
	pc.Samples = []any{"retention_days=1 cutoff=6h native=true marker@(sweepcut-1ns) existing=absent -> must stay absent"}
	r.AddPart(pc)

	// ---------- (d) shadow mode with the sweeper enabled: deleting old entries, keeping markers until the sweeper takes them ----------
	{
		pd := &ev.Part{Name: "d-shadow-capture-with-sweeper", Engine: "E1", Exhaustive: true}
		verifhook.SetNow(func(site string, t time.Time) time.Time { return time.Unix(0, int64(clock)) })
		verifhook.SetSkip(func(site string) bool { return true })
		day := uint64(24 * time.Hour)
		for _, cfgc := range []struct {
			days   float32
			buffer time.Duration
		}{{10, 5 * 24 * time.Hour}, {2, 0}, {30, time.Hour}} {
			sw := config.Sweeper{Enabled: true, RetentionDays: cfgc.days, RetentionLoadCutoffDuration: cfgc.buffer, Interval: time.Hour, FirstInterval: time.Hour, LockDuration: time.Second, ReleaseDuration: time.Second}
			R := uint64(sw.RetentionDuration())
			Rm := uint64(sw.RetentionDurationMinusCutoff())
			// age of the entry / marker at the decisive step: well inside, just inside the load cutoff, between load cutoff and retention
			for _, age := range []uint64{day / 2, Rm - 1, Rm + (R-Rm)/2, R - 1} {
				if age >= R || age == 0 {
					continue
				}
				for _, scenario := range []string{"delete-old-entry", "marker-ages-then-older-version-arrives"} {
					bkt := world.NewBucket()
					peer := inst.New("p", bkt, inst.Opt{Native: true})
					a := inst.New("a", bkt, inst.Opt{Native: false, Sweeper: &sw})
					t0 := tLoad
					desc := fmt.Sprintf("retention_days=%v buffer=%v age=%v scenario=%s", cfgc.days, cfgc.buffer, time.Duration(age), scenario)
					rep := map[string]any{"retention_days": cfgc.days, "buffer_ns": int64(cfgc.buffer), "age_ns": age, "scenario": scenario}
					appHas := func() bool {
						_, ok := world.PlainContent(a.Env.RawDump(), world.PickNative)["d"]["k"]
						return ok
					}
					shadowOf := func() (world.Ver, bool) {
						lc, err := world.HeaderLC(a.Env.RawDump(), world.PickShadow)
						if err != nil {
							ev.Fatal("%v", err)
						}
						v, ok := lc["d"]["k"]
						return v, ok
					}
					// the peer holds a live version of k written `age` (or more) before the decisive moment
					oldTS := t0 - age
					if scenario == "marker-ages-then-older-version-arrives" {
						oldTS = t0 - age - day
					}
					peer.AppTxn(func(txn *lmdb.Txn) error {
						inst.NativePut(txn, "d", []byte("k"), oldTS, false, []byte("v-old"))
						inst.NativePut(txn, "d", []byte("other"), t0-1000, false, []byte("o"))
						return nil
					})
					clock = t0 - age - day/2
					if clock < oldTS {
						clock = oldTS + 1
					}
					if _, err := peer.Send(); err != nil {
						ev.Fatal("send: %v", err)
					}
					pname := bkt.Names()[0]
					pdata, _ := bkt.Get(pname)
					fail := func(sig, msg string) { r.Violate(pd.Name, sig, desc+": "+msg, rep) }
					switch scenario {
					case "delete-old-entry":
						// a merges the peer's snapshot now (the entry is `age` old), the application deletes k, the change is captured
						clock = t0
						if _, _, err := a.Load(pname, pdata, 0); err != nil {
							fail("load-error", err.Error())
							break
						}
						if !appHas() {
							fail("old-live-entry-not-merged", "application does not see k after the merge")
							break
						}
						a.AppTxn(func(txn *lmdb.Txn) error { inst.PlainDel(txn, "d", 0, []byte("k"), nil); return nil })
						clock = t0 + 1000
						if _, err := a.Send(); err != nil {
							fail("send-error", err.Error())
							break
						}
						if v, ok := shadowOf(); !ok || !v.Deleted {
							fail("deletion-of-old-entry-not-recorded", fmt.Sprintf("after the capture the shadow DBI has %v (present=%v) for k, expected a deletion marker stamped now", v, ok))
						}
						// the peer's snapshot (still carrying the old live version) is merged again: k stays deleted
						clock = t0 + 2000
						if _, _, err := a.Load(pname, pdata, 1<<62); err != nil {
							fail("load-error", err.Error())
							break
						}
						if appHas() {
							fail("deleted-key-resurrected", "k is back in the application DBI after merging the peer's older live version")
						}
					case "marker-ages-then-older-version-arrives":
						// k exists locally (captured at t0-age-day/2), the application deletes it at t0-age, the marker ages, a capture pass runs, then the older version arrives
						a.AppTxn(func(txn *lmdb.Txn) error { inst.PlainPut(txn, "d", 0, []byte("k"), []byte("v-local")); return nil })
						if _, err := a.Send(); err != nil {
							fail("send-error", err.Error())
							break
						}
						a.AppTxn(func(txn *lmdb.Txn) error { inst.PlainDel(txn, "d", 0, []byte("k"), nil); return nil })
						clock = t0 - age
						if _, err := a.Send(); err != nil {
							fail("send-error", err.Error())
							break
						}
						if v, ok := shadowOf(); !ok || !v.Deleted || v.TS != t0-age {
							fail("deletion-not-recorded", fmt.Sprintf("shadow has %v (present=%v), expected a marker stamped %d", v, ok, t0-age))
							break
						}
						// time passes: the marker is `age` old (younger than the retention: the sweeper would keep it); another local change is captured
						clock = t0
						a.AppTxn(func(txn *lmdb.Txn) error { inst.PlainPut(txn, "d", 0, []byte("unrelated"), []byte("u")); return nil })
						if _, err := a.Send(); err != nil {
							fail("send-error", err.Error())
							break
						}
						if v, ok := shadowOf(); !ok || !v.Deleted {
							fail("marker-dropped-by-capture-pass", fmt.Sprintf("a capture pass removed the %v old marker of k (retention %v): shadow has %v present=%v", time.Duration(age), time.Duration(R), v, ok))
						}
						clock = t0 + 1000
						if _, _, err := a.Load(pname, pdata, 1<<62); err != nil {
							fail("load-error", err.Error())
							break
						}
						if appHas() {
							fail("deleted-key-resurrected", "k is back in the application DBI after a lagging peer's older live version arrived, still inside the retention")
						}
					}
					pd.Executions++
					pd.Transitions += 5
					a.Destroy()
					peer.Destroy()
				}
			}
		}
		verifhook.SetNow(nil)
		pd.States, pd.Distinct = pd.Executions, 2
		pd.Bound = "shadow-mode instance with the sweeper enabled x (retention 10 d / buffer 5 d, 2 d / default buffer, 30 d / 1 h) x entry or marker age {12 h, just inside the load cutoff, between load cutoff and retention, retention-1ns} x {the application deletes an old merged entry; a marker ages past the load cutoff, a capture pass runs, a lagging peer's older live version arrives}"
		r.AddPart(pd)
	}

	r.Finish()
}
