// C03 — a committed local application write is never destroyed by syncing.
// Engine E3, sync-loop scenario: the real Syncer.Sync loop, application
// commits offered at every decision point of the loop (deviation-bounded DFS).
package main

import (
	"encoding/json"
	"flag"
	"fmt"
	"os"
	"strings"
	"time"

	"verif/lib/ev"
	"verif/lib/explore"
	"verif/lib/loopworld"
	"verif/lib/par"
	"verif/lib/world"
	"verif/lib/xrun"
)

func run(param json.RawMessage, ctx *explore.Ctx, viols *[]xrun.Viol) string {
	var cfg loopworld.Cfg
	_ = json.Unmarshal(param, &cfg)
	res := loopworld.Run(cfg, ctx)
	for _, v := range res.Viols {
		if !loopworld.Judged(v.Sig, "c03") {
			continue // judged by their own checks
		}
		*viols = append(*viols, xrun.Viol{Sig: v.Sig, Msg: v.Msg})
	}
	return fmt.Sprintf("%s/stores=%d/loads=%d", res.Outcome, res.Stores, res.Loads)
}

func main() {
	flag.Parse()
	par.ServeIfWorker(map[string]par.Handler{"x": xrun.Handler(run)})
	if v, ok := ev.ReplayRequested(); ok {
		xrun.Replay(v, run)
		return
	}
	if os.Getenv("VERIF_DEBUG") != "" {
		cfg := loopworld.Cfg{Native: os.Getenv("VERIF_DEBUG") == "native", Remote2: true, Straddle: true, MaxVisits: 2}
		ctx := explore.NewCtx(nil)
		t0 := time.Now()
		res := loopworld.Run(cfg, ctx)
		fmt.Printf("outcome=%s steps=%d stores=%d loads=%d viols=%v t=%v\n", res.Outcome, res.Steps, res.Stores, res.Loads, res.Viols, time.Since(t0))
		if os.Getenv("VERIF_DEBUG_KIDS") != "" {
			var st explore.Stats
			kids := explore.RunOne(explore.Node{}, 1, func(c *explore.Ctx) string { return loopworld.Run(cfg, c).Outcome }, &st)
			fmt.Println("kids:", len(kids))
			if os.Getenv("VERIF_DEBUG_KIDS") == "deep" {
				var st2 explore.Stats
				found := 0
				explore.Budgeted(kids, 2, 3000, func(c *explore.Ctx) string {
					res := loopworld.Run(cfg, c)
					if res.Steps > 150 && found < 3 {
						found++
						fmt.Printf("LONG steps=%d stores=%d loads=%d outcome=%s deviations=%v\n", res.Steps, res.Stores, res.Loads, res.Outcome, c.Deviations())
						tl := c.TraceLabels()
						fmt.Println(strings.Join(tl[:min(len(tl), 140)], " ; "))
					}
					return res.Outcome
				}, &st2)
				fmt.Println("explored", st2.Executions, "max", st2.MaxSteps)
				return
			}
			for _, k := range kids {
				c := explore.NewCtx(k.Prefix)
				t1 := time.Now()
				res := loopworld.Run(cfg, c)
				if res.Steps > 80 || os.Getenv("VERIF_DEBUG_KIDS") == "all" {
					fmt.Printf("%-50s steps=%d stores=%d loads=%d outcome=%s t=%v\n", k.Prefix[len(k.Prefix)-1].Label, res.Steps, res.Stores, res.Loads, res.Outcome, time.Since(t1))
					if res.Steps > 300 {
						fmt.Println(strings.Join(c.TraceLabels()[len(k.Prefix)-1:min(len(c.Trace), len(k.Prefix)+60)], " ; "))
						return
					}
				}
			}
			return
		}
		if os.Getenv("VERIF_DEBUG_REPEAT") == "" {
			for i, st := range ctx.Trace {
				fmt.Printf("%3d %-40s options=%v\n", i, st.Label, st.Options)
			}
			return
		}
		ref := strings.Join(ctx.TraceLabels(), ";")
		for n := 0; n < 400; n++ {
			c2 := explore.NewCtx(nil)
			loopworld.Run(cfg, c2)
			if got := strings.Join(c2.TraceLabels(), ";"); got != ref {
				fmt.Printf("run %d differs:\n ref %s\n got %s\n", n, ref, got)
				return
			}
		}
		fmt.Println("400 identical runs")
		return
	}
	r := ev.Start("C03")
	defer r.RecoverMain()
	defer world.Cleanup()
	r.SetBudget(ev.Pick(r, 420*time.Second, 45*time.Minute))
	r.Assume("steady state: initial content was written and mirrored by a previous complete sync step; all remote versions are older than anything the application writes, so any change of an application-written key is a violation",
		"goroutine scheduling follows a fixed policy (background downloads run to completion before the loop continues); the explored choices are the environment's answers: application commits at every loop hook, straddling application transactions, remote snapshot arrival")
	bound := ev.Pick(r, 2, 3)
	type part struct {
		name  string
		bound int
		cfg   loopworld.Cfg
	}
	var small, large []part
	for _, native := range []bool{true, false} {
		name := map[bool]string{true: "native", false: "shadow"}[native]
		large = append(large, part{"loop-" + name, bound, loopworld.Cfg{Native: native, Remote2: true, NoopRemote: true, Straddle: true, LoopFirst: r.Thorough(), MaxVisits: 2}})
		// with the tomb sweeper enabled: stale remote deletion markers meet live local data
		small = append(small, part{"loop-" + name + "-sweeper-enabled", bound, loopworld.Cfg{Native: native, Remote2: true, Sweeper: true, MaxVisits: 1, AppOps: []string{"put-a", "put-b", "del-a"}}})
		// ... and its timer fires once over a stale local marker (the sweep's own transaction lands between the
		// application's commits, the loop's poll and a remote arrival)
		small = append(small, part{"loop-" + name + "-sweeper-fires", bound, loopworld.Cfg{Native: native, Remote2: true, Sweeper: true, SweeperFires: true, MaxVisits: 1, AppOps: []string{"del-a", "put-b"}}})
		// two remote instances publish at once: several merges in one pass of the loop, application commits in between
		small = append(small, part{"loop-" + name + "-two-remotes", bound, loopworld.Cfg{Native: native, Remote2: true, TwoRemotes: true, MaxVisits: 1, AppOps: []string{"put-b", "del-a", "newdbi"}}})
	}
	// a receive-only instance (merges, never uploads) whose application writes locally all the same
	small = append(small, part{"loop-shadow-receive-only", bound, loopworld.Cfg{Native: false, ReceiveOnly: true, Remote2: true, MaxVisits: 1, AppOps: []string{"put-b", "put-a", "del-a"}}},
		part{"loop-native-receive-only", bound, loopworld.Cfg{Native: true, ReceiveOnly: true, Remote2: true, MaxVisits: 1, AppOps: []string{"put-b", "del-a"}}})
	// cheapest parts first; every part may use an equal share of what is left of the budget
	parts := append(small, large...)
	for i, p := range parts {
		restore := r.SubBudget(r.Remaining() / time.Duration(len(parts)-i))
		xrun.Explore(r, p.name, xrun.Opts{Kind: "x", Bound: p.bound, Budget: 30, Recycle: 4, Param: p.cfg})
		restore()
	}
	r.Finish()
}
