// C07 — snapshot encoding is lossless and wire-compatible with the published schema.
// Engine E1: enumerated snapshots, four directions against the generated
// reference codec, and every re-encoding (field order, explicit defaults,
// unknown fields of every wire type at every position of every nesting level).
package main

import (
	"bytes"
	"flag"
	"fmt"
	"strings"

	"github.com/PowerDNS/lightningstream/snapshot"

	"verif/lib/ev"
	"verif/lib/pb"
	"verif/lib/world"
)

func rep(c byte, n int) []byte { return bytes.Repeat([]byte{c}, n) }

var r *ev.Run

func fourWays(part *ev.Part, s pb.Snap, sizeHint int, label string, classes map[string]bool) {
	r.Guard(part.Name, "panic-in-codec", map[string]any{"label": label, "sizeHint": sizeHint}, func() { fourWays1(part, s, sizeHint, label, classes) })
}

func fourWays1(part *ev.Part, s pb.Snap, sizeHint int, label string, classes map[string]bool) {
	want := s.String()
	part.Executions++
	repl := map[string]any{"content": trunc(want), "sizeHint": sizeHint, "label": label}
	// (1) ours -> ours
	var buf bytes.Buffer
	ours := s.ToOurs(sizeHint)
	if _, err := ours.WriteTo(&buf); err != nil {
		r.Violate(part.Name, "writeto-error", err.Error(), repl)
		return
	}
	enc := buf.Bytes()
	part.Transitions += 4
	got, err := pb.DecodeOurs(enc)
	if err != nil || got.String() != want {
		r.Violate(part.Name, "roundtrip-ours-ours", fmt.Sprintf("%s: WriteTo->Unmarshal: err=%v\n got  %s\n want %s", label, err, trunc(got.String()), trunc(want)), repl)
	}
	// (2) ours -> reference
	gr, err := pb.DecodeRef(enc)
	if err != nil || gr.String() != want {
		r.Violate(part.Name, "ours-not-readable-by-reference", fmt.Sprintf("%s: reference decoder on our bytes: err=%v\n got  %s\n want %s", label, err, trunc(gr.String()), trunc(want)), repl)
	}
	// (3) reference -> ours
	rb, err := s.ToRef().Marshal()
	if err != nil {
		ev.Fatal("reference marshal: %v", err)
	}
	g3, err := pb.DecodeOurs(rb)
	if err != nil || g3.String() != want {
		r.Violate(part.Name, "reference-bytes-misread", fmt.Sprintf("%s: our decoder on reference bytes: err=%v\n got  %s\n want %s", label, err, trunc(g3.String()), trunc(want)), repl)
	}
	// our own tree encoder must agree with the reference (harness self-check)
	if !bytes.Equal(s.ToMsg().Enc(), rb) {
		g4, _ := pb.DecodeRef(s.ToMsg().Enc())
		if g4.String() != want {
			ev.Fatal("harness message tree encoder disagrees with reference for %s", trunc(want))
		}
	}
	// DumpData -> LoadData
	data, _, err := snapshot.DumpData(s.ToOurs(sizeHint))
	if err != nil {
		r.Violate(part.Name, "dumpdata-error", err.Error(), repl)
		return
	}
	ld, err := snapshot.LoadData(data)
	if err != nil {
		r.Violate(part.Name, "loaddata-error", fmt.Sprintf("%s: %v", label, err), repl)
		return
	}
	g5, err := pb.FromOurs(ld)
	if err != nil || g5.String() != want {
		r.Violate(part.Name, "roundtrip-dump-load", fmt.Sprintf("%s: DumpData->LoadData: err=%v\n got  %s\n want %s", label, err, trunc(g5.String()), trunc(want)), repl)
	}
	// (6) a decoded snapshot is a snapshot like any other: appending an entry to one of its DBIs changes that
	// DBI only, in memory and after another encode/decode (decoded DBIs are views into one shared buffer)
	if len(s.DBIs) >= 2 && len(s.DBIs) <= 3 {
		extra := pb.KV{Key: []byte("zzz-appended"), Val: []byte("appended-value"), TS: 77, Flags: 1}
		for i := range s.DBIs {
			var dec snapshot.Snapshot
			if err := dec.Unmarshal(append([]byte{}, enc...)); err != nil {
				break // reported above
			}
			dec.Databases[i].Append(snapshot.KV{Key: extra.Key, Value: extra.Val, TimestampNano: extra.TS, Flags: extra.Flags})
			ws := s
			ws.DBIs = append([]pb.DBI{}, s.DBIs...)
			ws.DBIs[i].Entries = append(append([]pb.KV{}, s.DBIs[i].Entries...), extra)
			want6 := ws.String()
			part.Transitions += 2
			g6, err := pb.FromOurs(&dec)
			if err != nil || g6.String() != want6 {
				r.Violate(part.Name, "append-to-decoded-dbi-corrupts-snapshot", fmt.Sprintf("%s: decode, then Append to DBI %d: err=%v\n got  %s\n want %s", label, i, err, trunc(g6.String()), trunc(want6)), repl)
				continue
			}
			var b6 bytes.Buffer
			if _, err := dec.WriteTo(&b6); err != nil {
				r.Violate(part.Name, "writeto-error", err.Error(), repl)
				continue
			}
			g7, err := pb.DecodeRef(b6.Bytes())
			if err != nil || g7.String() != want6 {
				r.Violate(part.Name, "append-to-decoded-dbi-corrupts-snapshot", fmt.Sprintf("%s: decode, Append to DBI %d, encode, reference decode: err=%v\n got  %s\n want %s", label, i, err, trunc(g7.String()), trunc(want6)), repl)
			}
		}
	}
	// (7) two encoders in one process (one Syncer per configured database): another snapshot is encoded completely
	// at every Write call of this snapshot's WriteTo; the bytes written must still decode to this snapshot
	if part.Executions%3 == 0 || len(s.DBIs) >= 2 {
		other := pb.Snap{FV: 3, CV: 2, Meta: pb.Meta{GenerationID: "OTHER-GENERATION", InstanceID: "other-instance", Hostname: "other-host", DatabaseName: "other-database", LmdbTxnID: 987654321, TimestampNano: 1234567890123456789},
			DBIs: []pb.DBI{{Name: "other-dbi", Flags: 8, Entries: []pb.KV{{Key: []byte("other-key"), Val: rep('o', 300), TS: 99, Flags: 1}}}}}
		otherOurs := other.ToOurs(0)
		iw := &interleavingWriter{during: func() {
			var ob bytes.Buffer
			_, _ = otherOurs.WriteTo(&ob)
		}}
		part.Transitions++
		if _, err := s.ToOurs(sizeHint).WriteTo(iw); err != nil {
			r.Violate(part.Name, "writeto-error", err.Error(), repl)
		} else if g8, err := pb.DecodeRef(iw.buf.Bytes()); err != nil || g8.String() != want {
			r.Violate(part.Name, "concurrent-encoders-corrupt-each-other", fmt.Sprintf("%s: another snapshot encoded at every Write of this one's WriteTo (%d writes): err=%v\n got  %s\n want %s", label, iw.writes, err, trunc(g8.String()), trunc(want)), repl)
		}
	}
	classes[fmt.Sprintf("%d/%v", len(s.DBIs), len(enc) > 127)] = true
}

// interleavingWriter runs `during` before every Write: whatever another encoder in the same process would do
// between two writes of this one.
type interleavingWriter struct {
	buf    bytes.Buffer
	during func()
	writes int
}

func (w *interleavingWriter) Write(p []byte) (int, error) {
	w.writes++
	w.during()
	return w.buf.Write(p)
}

func trunc(s string) string {
	if len(s) > 600 {
		return s[:600] + "..."
	}
	return s
}

func main() {
	flag.Parse()
	if v, ok := ev.ReplayRequested(); ok {
		fmt.Printf("  this check enumerates inputs; the replay artefact names the failing input directly: %v\n", v.Replay)
		return
	}
	r = ev.Start("C07")
	defer r.RecoverMain()
	defer world.Cleanup()
	r.Assume("generated gogosnapshot codec is the protobuf reference for the published schema",
		"deprecated group wire types (3/4) cannot be produced for this proto3 schema: out of scope",
		"content that cannot be LMDB content is excluded: entries with empty key, DBIs with no name/flags/entries (the writer skips empty messages)")

	// ---------- part A: structure product ----------
	pa := &ev.Part{Name: "structure-product-four-directions", Engine: "E1", Exhaustive: true}
	classes := map[string]bool{}
	entryAlpha := []pb.KV{
		{Key: []byte("a")},
		{Key: []byte("b"), Val: []byte("v"), TS: 1, Flags: 1},
		{Key: rep('k', 127), Val: rep('w', 127), TS: 1<<64 - 1, Flags: 1<<32 - 1},
		{Key: rep('k', 128), Val: rep('w', 128), TS: 1 << 63},
		{Key: rep('z', 511), Val: nil, TS: 2, Flags: 2},
		{Key: []byte{0}, Val: []byte{0, 0, 0}, TS: 0, Flags: 128},
	}
	var entryLists [][]pb.KV
	entryLists = append(entryLists, nil)
	for _, a := range entryAlpha {
		entryLists = append(entryLists, []pb.KV{a})
	}
	for _, a := range entryAlpha {
		for _, b := range entryAlpha {
			entryLists = append(entryLists, []pb.KV{a, b})
		}
	}
	if r.Thorough() {
		for _, a := range entryAlpha {
			for _, b := range entryAlpha {
				for _, c := range entryAlpha {
					entryLists = append(entryLists, []pb.KV{a, b, c})
				}
			}
		}
	}
	var shapes []pb.DBI
	for _, name := range []string{"a", string(rep('n', 127)), string(rep('n', 128)), string(rep('n', 511))} {
		for _, fl := range []uint64{0, 8, 1 << 32} {
			for _, tr := range []string{"", "dupsort_hack_v1", "other"} {
				for _, el := range entryLists {
					shapes = append(shapes, pb.DBI{Name: name, Flags: fl, Transform: tr, Entries: el})
				}
			}
		}
	}
	metas := []pb.Meta{
		{},
		{GenerationID: "G", InstanceID: "i", Hostname: "h", DatabaseName: "d", LmdbTxnID: 1, FromLmdbTxnID: 1, TimestampNano: 1},
		{GenerationID: string(rep('g', 128)), InstanceID: string(rep('i', 128)), Hostname: string(rep('h', 128)), DatabaseName: string(rep('d', 128)), LmdbTxnID: 1<<63 - 1, FromLmdbTxnID: 1 << 40, TimestampNano: 1<<64 - 1},
	}
	fvs := []uint32{0, 1, 3, 1<<32 - 1}
	n := len(shapes)
	for i := range shapes {
		meta := metas[i%len(metas)]
		fv := fvs[i%len(fvs)]
		cv := fvs[(i/len(fvs))%len(fvs)]
		hint := []int{100000, 100000, 100000, 100000, 100000, 100000, 100000, -1, 100000, 100000, 100000, 0, 100000, 100000, 100000, 16}[i%16]
		// 0..3 DBIs: the shape itself, plus 1 or 2 partner shapes chosen by a fixed stride
		for cnt := 0; cnt <= 3; cnt++ {
			if cnt == 0 && i >= len(metas)*len(fvs)*len(fvs) {
				continue
			}
			s := pb.Snap{FV: fv, CV: cv, Meta: meta}
			for k := 0; k < cnt; k++ {
				s.DBIs = append(s.DBIs, shapes[(i+k*(7+i%5))%n])
			}
			fourWays(pa, s, hint, fmt.Sprintf("shape#%d x%d", i, cnt), classes)
		}
	}
	pa.States = int64(len(shapes))
	pa.Distinct = int64(len(classes))
	pa.Bound = fmt.Sprintf("%d DBI shapes (4 name lengths x 3 flags x 3 transforms x all entry lists of length<=%d over 6 boundary entries), each alone and with 1-2 partner shapes; meta/format/compat/size-hint by each-choice", len(shapes), ev.Pick(r, 2, 3))
	pa.Samples = []any{trunc(pb.Snap{FV: 3, CV: 1, Meta: metas[1], DBIs: []pb.DBI{shapes[5], shapes[40]}}.String())}
	r.AddPart(pa)

	// ---------- part B: size boundaries ----------
	pbnd := &ev.Part{Name: "size-boundaries", Engine: "E1", Exhaustive: true}
	bclasses := map[string]bool{}
	vlens := []int{0, 1, 127, 128, 16383, 16384, 2097151, 2097152}
	klens := []int{1, 127, 128, 511}
	for _, kl := range klens {
		for _, vl := range vlens {
			for _, hint := range []int{-1, 0, kl + vl + 8} {
				if vl >= 2097151 && kl != 1 && kl != 511 {
					continue
				}
				s := pb.Snap{FV: 3, CV: 1, Meta: metas[1], DBIs: []pb.DBI{{Name: "d", Entries: []pb.KV{{Key: rep('k', kl), Val: rep('v', vl), TS: 5}}}}}
				fourWays(pbnd, s, hint, fmt.Sprintf("key%d val%d hint%d", kl, vl, hint), bclasses)
			}
		}
	}
	// a single value larger than the buffer growth step (10 MB), first and after a small entry
	for _, vl := range []int{10 << 20, 10<<20 + 1, 11 << 20} {
		for _, hint := range []int{-1, 100, 6 << 20} {
			big := pb.KV{Key: []byte("big"), Val: rep('B', vl), TS: 3}
			fourWays(pbnd, pb.Snap{FV: 3, CV: 1, DBIs: []pb.DBI{{Name: "d", Entries: []pb.KV{big}}}}, hint, fmt.Sprintf("bigvalue %d hint%d", vl, hint), bclasses)
			fourWays(pbnd, pb.Snap{FV: 3, CV: 1, DBIs: []pb.DBI{{Name: "d", Entries: []pb.KV{{Key: []byte("a"), Val: []byte("s")}, big}}}}, hint, fmt.Sprintf("small+bigvalue %d hint%d", vl, hint), bclasses)
		}
	}
	// buffer growth in the middle of a DBI: tight hint fits the header and first entries only
	for _, nEntries := range []int{2, 3, 50} {
		for _, hint := range []int{0, 8, 40, 200} {
			d := pb.DBI{Name: "grow", Flags: 8, Transform: "other"}
			for i := 0; i < nEntries; i++ {
				d.Entries = append(d.Entries, pb.KV{Key: []byte(fmt.Sprintf("key%03d", i)), Val: rep('x', 10+i), TS: uint64(i), Flags: uint32(i % 2)})
			}
			fourWays(pbnd, pb.Snap{FV: 3, CV: 1, DBIs: []pb.DBI{d, d}}, hint, fmt.Sprintf("growth n=%d hint=%d", nEntries, hint), bclasses)
		}
	}
	pbnd.States = pbnd.Executions
	pbnd.Distinct = int64(len(bclasses))
	pbnd.Bound = "key length {1,127,128,511} x value length {0,1,127,128,16383,16384,2097151,2097152} x size hint {none,0,tight}; single values of 10 MB, 10 MB+1, 11 MB (larger than the growth step) x hints; buffer growth inside a DBI at entry 1,2,..."
	pbnd.Samples = []any{"key511 val2097152 hint0"}
	r.AddPart(pbnd)

	// ---------- part C: every re-encoding ----------
	pc := &ev.Part{Name: "re-encodings-vs-reference", Engine: "E1", Exhaustive: true}
	cclasses := map[string]bool{}
	bases := []pb.Snap{
		{FV: 3, CV: 1, Meta: metas[1], DBIs: []pb.DBI{
			{Name: "d1", Flags: 8, Transform: "other", Entries: []pb.KV{{Key: []byte("a"), Val: []byte("x"), TS: 7, Flags: 1}, {Key: []byte("b"), Val: []byte("yy"), TS: 8}}},
			{Name: "d2", Entries: []pb.KV{{Key: []byte("c"), TS: 9, Flags: 1}}}}},
		{FV: 1, DBIs: []pb.DBI{{Name: "only", Entries: []pb.KV{{Key: []byte("k"), Val: rep('v', 130)}}}}},
		{FV: 3, CV: 3, Meta: pb.Meta{InstanceID: "i"}, DBIs: []pb.DBI{{Name: "empty", Flags: 1 << 32}, {Name: "e2", Transform: "dupsort_hack_v1", Entries: []pb.KV{{Key: []byte("k"), Val: []byte("v"), TS: 1, Flags: 1<<32 - 1}}}}},
	}
	var decodeBoth1 func(label string, data []byte, replay any)
	decodeBoth := func(label string, data []byte, replay any) {
		r.Guard(pc.Name, "panic-in-decoder", replay, func() { decodeBoth1(label, data, replay) })
	}
	decodeBoth1 = func(label string, data []byte, replay any) {
		pc.Executions++
		pc.Transitions += 2
		want, rerr := pb.DecodeRef(data)
		got, err := pb.DecodeOurs(data)
		if rerr != nil {
			ev.Fatal("harness produced a message the reference rejects (%s): %v", label, rerr)
		}
		kind := strings.SplitN(label, ":", 2)[0]
		cclasses[kind] = true
		if err != nil {
			sig := "valid-message-rejected-" + kind
			r.Violate(pc.Name, sig, fmt.Sprintf("%s: our decoder: %v (reference decodes it: %s)", label, err, trunc(want.String())), replay)
			return
		}
		if got.String() != want.String() {
			r.Violate(pc.Name, "valid-message-misread-"+kind, fmt.Sprintf("%s:\n ours %s\n ref  %s", label, trunc(got.String()), trunc(want.String())), replay)
		}
	}
	unknowns := func() []pb.F {
		var out []pb.F
		for _, num := range []int{15, 16, 2047, 2048} {
			out = append(out,
				pb.F{Num: num, WT: pb.WTVarint, V: 300},
				pb.F{Num: num, WT: pb.WTFixed64, V: 0x0102030405060708},
				pb.F{Num: num, WT: pb.WTBytes, B: []byte("unknown-bytes")},
				pb.F{Num: num, WT: pb.WTBytes, B: nil},
				pb.F{Num: num, WT: pb.WTFixed32, V: 0xdeadbeef},
			)
		}
		return out
	}()
	for bi, base := range bases {
		root := base.ToMsg()
		// enumerate sub-messages by path
		var paths []string
		root.Walk("", func(p string, m *pb.Msg) { paths = append(paths, p) })
		find := func(m *pb.Msg, path string) *pb.Msg {
			var out *pb.Msg
			m.Walk("", func(p string, mm *pb.Msg) {
				if p == path {
					out = mm
				}
			})
			return out
		}
		for _, path := range paths {
			// (i) all permutations of the fields of this message
			orig := find(root, path)
			nf := len(orig.F)
			if nf >= 2 && nf <= 7 {
				idx := make([]int, nf)
				for i := range idx {
					idx[i] = i
				}
				var permute func(k int)
				permute = func(k int) {
					if k == nf {
						c := root.Clone()
						t := find(c, path)
						src := find(root, path)
						for i, j := range idx {
							t.F[i] = src.F[j]
						}
						decodeBoth(fmt.Sprintf("permute: base%d path=%q order=%v", bi, path, idx), c.Enc(), map[string]any{"base": bi, "path": path, "order": append([]int{}, idx...), "bytes": fmt.Sprintf("%x", c.Enc())})
						return
					}
					for i := k; i < nf; i++ {
						idx[k], idx[i] = idx[i], idx[k]
						permute(k + 1)
						idx[k], idx[i] = idx[i], idx[k]
					}
				}
				permute(0)
			}
			// (ii) unknown field of each wire type at every position
			for posn := 0; posn <= nf; posn++ {
				for ui, u := range unknowns {
					c := root.Clone()
					t := find(c, path)
					nfld := append([]pb.F{}, t.F[:posn]...)
					nfld = append(nfld, u)
					nfld = append(nfld, t.F[posn:]...)
					t.F = nfld
					depth := strings.Count(path, "/")
					decodeBoth(fmt.Sprintf("unknown-field-depth%d: base%d path=%q pos=%d field=%d wt=%d", depth, bi, path, posn, u.Num, u.WT), c.Enc(),
						map[string]any{"base": bi, "path": path, "pos": posn, "unknown": ui, "bytes": fmt.Sprintf("%x", c.Enc())})
				}
			}
			// (iii) explicit default values for singular fields of this level, at every position, and duplicates (last wins)
			depth := strings.Count(path, "/")
			var defaults []pb.F
			switch {
			case depth == 0:
				defaults = []pb.F{{Num: 1, WT: pb.WTVarint}, {Num: 4, WT: pb.WTVarint}, {Num: 2, WT: pb.WTBytes}}
			case strings.HasPrefix(path, "/2#") && depth == 1:
				defaults = []pb.F{{Num: 1, WT: pb.WTBytes}, {Num: 3, WT: pb.WTBytes}, {Num: 4, WT: pb.WTVarint}, {Num: 5, WT: pb.WTFixed64}, {Num: 7, WT: pb.WTBytes}, {Num: 8, WT: pb.WTVarint}}
			case depth == 1:
				defaults = []pb.F{{Num: 1, WT: pb.WTBytes}, {Num: 3, WT: pb.WTVarint}, {Num: 4, WT: pb.WTBytes}}
			case depth == 2:
				defaults = []pb.F{{Num: 2, WT: pb.WTBytes}, {Num: 3, WT: pb.WTFixed64}, {Num: 4, WT: pb.WTVarint}}
			}
			for posn := 0; posn <= nf; posn++ {
				for _, d := range defaults {
					c := root.Clone()
					t := find(c, path)
					nfld := append([]pb.F{}, t.F[:posn]...)
					nfld = append(nfld, d)
					nfld = append(nfld, t.F[posn:]...)
					t.F = nfld
					decodeBoth(fmt.Sprintf("explicit-default: base%d path=%q pos=%d field=%d", bi, path, posn, d.Num), c.Enc(), map[string]any{"base": bi, "path": path, "pos": posn, "field": d.Num, "bytes": fmt.Sprintf("%x", c.Enc())})
				}
			}
		}
	}
	// Meta with all 7 fields: all 5040 orders (thorough) / rotations+reversal (quick) are covered by the permutation of base0's meta above (7 fields -> 5040)
	pc.States = int64(len(bases))
	pc.Distinct = int64(len(cclasses))
	pc.Bound = "3 base messages: all permutations of the fields of every (sub-)message (up to 7! for Meta); one unknown field {15,16,2047,2048} x {varint,fixed64,bytes,empty bytes,fixed32} at every position of every nesting level; explicit default / duplicate singular fields at every position"
	pc.Samples = []any{"unknown-field-depth1: base0 path=\"/3#3\" pos=1 field=16 wt=2", "permute: base0 path=\"/3#3/2#3\" order=[3 1 0 2]"}
	r.AddPart(pc)

	r.Finish()
}
