// C10 — syncing reaches quiescence: no echo uploads, no write amplification.
// (a) engine E1: for every stored content / snapshot pair in which the snapshot
// contains nothing that wins, the real LoadOnce commits nothing.
// (b) engine E2: fleets stop producing snapshots after a bounded number of
// exchanges once applications stop writing (loop rule replicated: upload only
// if LastTxnID > lastSyncedTxnID).
// (c) the real sync loop (E3) is explored in the sync-loop scenario, see C09/C03 evidence.
package main

import (
	"encoding/json"
	"flag"
	"fmt"
	"github.com/PowerDNS/lightningstream/config"
	"sort"
	"strings"
	"time"

	"github.com/PowerDNS/lightningstream/lmdbenv/header"
	"github.com/PowerDNS/lightningstream/snapshot"
	"github.com/PowerDNS/lightningstream/utils/verifhook"
	"github.com/PowerDNS/lmdb-go/lmdb"

	"verif/lib/ev"
	"verif/lib/explore"
	"verif/lib/fleet"
	"verif/lib/inst"
	"verif/lib/loopworld"
	"verif/lib/par"
	"verif/lib/statemc"
	"verif/lib/world"
	"verif/lib/xrun"
)

type sv struct { // stored version
	present bool
	ts      uint64
	del     bool
	val     string
}

type iv struct { // incoming relation to the stored version
	kind string // absent, same, older-live, older-del, tie-loser, stale-del (only when stored absent: not applicable)
}

// ---------- part (b): quiescence of fleets under the loop's upload rule ----------

// settle runs rounds of {every instance uploads iff it has local changes (LastTxnID > lastSynced);
// every instance merges the newest snapshot of every other instance} and returns the number of uploads per round.
func settle(f *fleet.Fleet, maxRounds int) (uploads []int, err error) {
	for round := 0; round < maxRounds; round++ {
		n := 0
		for i := range f.I {
			if header.TxnID(f.I[i].Env.LastTxnID()) > f.LastSynced[i] && f.I[i].Env.LastTxnID() > 0 {
				if err := f.Apply(fmt.Sprintf("S%d+", i)); err != nil {
					return uploads, err
				}
				n++
			}
		}
		for i := range f.I {
			for j := range f.I {
				if i == j {
					continue
				}
				if nm := f.Newest(j); nm != "" {
					bi := sort.SearchStrings(f.Blobs(), nm)
					if err := f.Apply(fmt.Sprintf("L%d:%d", i, bi)); err != nil {
						return uploads, err
					}
				}
			}
		}
		uploads = append(uploads, n)
		if n == 0 && round > 0 {
			// quiescent: everything is merged everywhere. One more exchange must not even commit a transaction.
			for i := range f.I {
				for j := range f.I {
					if nm := f.Newest(j); i != j && nm != "" {
						before := f.I[i].Env.LastTxnID()
						if err := f.Apply(fmt.Sprintf("L%d:%d", i, sort.SearchStrings(f.Blobs(), nm))); err != nil {
							return uploads, err
						}
						if now := f.I[i].Env.LastTxnID(); now != before {
							return uploads, fmt.Errorf("NOOP-COMMIT: instance %d merged the already merged newest snapshot of instance %d and committed a transaction (%d -> %d)", i, j, before, now)
						}
					}
				}
			}
			return uploads, nil
		}
	}
	return uploads, nil
}

func expand(hist []string, param json.RawMessage) statemc.Result {
	var cfg fleet.Cfg
	_ = json.Unmarshal(param, &cfg)
	f, err := fleet.Replay(cfg, hist)
	if err != nil {
		f.Close()
		return statemc.Result{Err: "replay failed: " + err.Error()}
	}
	evs := f.Enabled()
	f.Close()
	var res statemc.Result
	for _, e := range evs {
		g, err := fleet.Replay(cfg, hist)
		if err != nil {
			g.Close()
			return statemc.Result{Err: err.Error()}
		}
		s := statemc.Succ{Ev: e}
		if err := g.Apply(e); err != nil {
			g.Close()
			if _, ok := err.(fleet.ImplError); ok {
				s.Stop = true
				s.Key = fleet.Hash("err" + strings.Join(hist, " ") + e)
				s.Viols = []statemc.Viol{{Sig: "impl-error", Msg: err.Error()}}
				res.Succs = append(res.Succs, s)
				continue
			}
			return statemc.Result{Err: err.Error()}
		}
		s.Key = fleet.Hash(g.Canon())
		// write-free phase
		ups, err := settle(g, 8)
		if err != nil && strings.HasPrefix(err.Error(), "NOOP-COMMIT") {
			s.Viols = append(s.Viols, statemc.Viol{Sig: "transaction-committed-by-noop-merge-in-quiescent-fleet", Msg: err.Error()})
		} else if err != nil {
			s.Viols = append(s.Viols, statemc.Viol{Sig: "impl-error-in-settle", Msg: err.Error()})
		} else {
			total := 0
			for _, u := range ups {
				total += u
			}
			last := ups[len(ups)-1]
			if last != 0 {
				s.Viols = append(s.Viols, statemc.Viol{Sig: "fleet-never-stops-uploading", Msg: fmt.Sprintf("uploads per exchange round after the last application write: %v", ups)})
			}
			// native: at most one upload per instance (its pending local change); shadow: a merge that detects a local change
			// is followed by one upload, and merging that upload must not trigger another one: <= 2 per instance
			limit := len(g.I)
			if !cfg.Native {
				limit = 2 * len(g.I)
			}
			if total > limit {
				s.Viols = append(s.Viols, statemc.Viol{Sig: "echo-uploads", Msg: fmt.Sprintf("%d uploads after the last application write (rounds %v), expected at most %d", total, ups, limit)})
			}
			s.Term = fmt.Sprint(ups)
		}
		g.Close()
		res.Succs = append(res.Succs, s)
	}
	return res
}

// part (c): the real sync loop; only the upload-accounting oracle is judged here.
func runLoop(param json.RawMessage, ctx *explore.Ctx, viols *[]xrun.Viol) string {
	var cfg loopworld.Cfg
	_ = json.Unmarshal(param, &cfg)
	res := loopworld.Run(cfg, ctx)
	for _, v := range res.Viols {
		if !loopworld.Judged(v.Sig, "c10") {
			continue
		}
		*viols = append(*viols, xrun.Viol{Sig: v.Sig, Msg: v.Msg})
	}
	return fmt.Sprintf("%s/stores=%d/commits=%d/loads=%d", res.Outcome, res.Stores, res.Commits, res.Loads)
}

func main() {
	flag.Parse()
	par.ServeIfWorker(map[string]par.Handler{"x": statemc.Handler(expand), "loop": xrun.Handler(runLoop)})
	if v, ok := ev.ReplayRequested(); ok {
		switch {
		case strings.HasPrefix(v.Part, "b-"):
			statemc.Replay(v, expand)
		case strings.HasPrefix(v.Part, "c-"):
			xrun.Replay(v, runLoop)
		default:
			fmt.Printf("  the replay artefact names the failing case directly: %v\n", v.Replay)
		}
		return
	}
	r := ev.Start("C10")
	defer r.RecoverMain()
	defer world.Cleanup()
	r.SetBudget(ev.Pick(r, 300*time.Second, 30*time.Minute))
	r.Assume("DBIs without the dupsort hack", "part (b) replicates the loop's upload rule (LastTxnID > lastSyncedTxnID) in the harness; the real loop is explored by the E3 sync-loop scenario")

	// ---------- part (a) ----------
	pa := &ev.Part{Name: "a-nothing-newer-commits-nothing", Engine: "E1", Exhaustive: true}
	classes := map[string]bool{}
	var clock uint64 = 2_000_000_000_000_000_000
	verifhook.SetNow(func(site string, t time.Time) time.Time { return time.Unix(0, int64(clock)) })
	verifhook.SetSkip(func(string) bool { return true })
	storedAlpha := []sv{{false, 0, false, ""}, {true, 20, false, "m"}, {true, 20, true, ""}, {true, 20, false, ""}, {true, 0, false, "m"}}
	incomingKinds := []string{"absent", "same", "older-live", "older-del", "tie-loser", "stale-del"}
	var incomingKinds2 []string // second key: each kind with and without a filler key in the DBI
	for _, k := range incomingKinds {
		incomingKinds2 = append(incomingKinds2, k, k+"/nofiller")
	}
	for _, native := range []bool{true, false} {
		for _, padding := range []bool{false, true} {
			if padding && !native {
				continue
			}
			for _, fv := range []uint32{3, 2, 1} {
				for ai, sa := range storedAlpha {
					for bi, sb := range storedAlpha {
						if !r.Thorough() && (ai+bi)%2 == 1 && fv != 3 {
							continue
						}
						for _, ka := range incomingKinds {
							for _, kbf := range incomingKinds2 {
								kb, filler := strings.TrimSuffix(kbf, "/nofiller"), !strings.HasSuffix(kbf, "/nofiller")
								if !filler && (native || fv != 3) {
									continue // the variant without a filler key (application DBI possibly empty) is a shadow-mode case
								}
								if !native && (sa.ts == 0 && sa.present || sb.ts == 0 && sb.present) {
									continue // shadow entries are always stamped
								}
								bkt := world.NewBucket()
								// the tomb sweeper is enabled (retention 1 day): a marker past the retention for a key that is absent
								// locally (kind stale-del) is "nothing newer" as well
								a := inst.New("a", bkt, inst.Opt{Native: native, Padding: padding, Sweeper: &config.Sweeper{Enabled: true, RetentionDays: 1, Interval: time.Hour, FirstInterval: time.Hour, LockDuration: time.Second, ReleaseDuration: time.Second}})
								// establish stored content
								stored := map[string]sv{"ka": sa, "kb": sb}
								a.AppTxn(func(txn *lmdb.Txn) error {
									for _, k := range []string{"ka", "kb"} {
										v := stored[k]
										if native {
											if v.present {
												inst.NativePut(txn, "d", []byte(k), v.ts, v.del, []byte(v.val))
											} else {
												inst.NativePut(txn, "d", []byte("zz"), 1, false, []byte("filler"))
											}
										} else {
											// shadow mode: application DBI plus matching shadow DBI, as left behind by earlier sync steps
											if filler {
												inst.PlainPut(txn, "d", 0, []byte("zz"), []byte("filler"))
												inst.NativePut(txn, world.ShadowPrefix+"d", []byte("zz"), 1, false, []byte("filler"))
											} else {
												// no other key: the application DBI is empty when both keys are absent or deleted
												for _, n := range []string{"d", world.ShadowPrefix + "d"} {
													if _, err := txn.OpenDBI(n, lmdb.Create); err != nil {
														return err
													}
												}
											}
											if v.present {
												if !v.del && v.val != "" {
													inst.PlainPut(txn, "d", 0, []byte(k), []byte(v.val))
												}
												if !v.del && v.val == "" {
													continue // empty application values: known finding, excluded here
												}
												inst.NativePut(txn, world.ShadowPrefix+"d", []byte(k), v.ts, v.del, []byte(v.val))
											}
										}
									}
									return nil
								})
								// snapshot with nothing that wins
								dm := snapshot.NewDBISize(512)
								dm.SetName("d")
								skip := false
								for _, pair := range []struct {
									k    string
									kind string
								}{{"ka", ka}, {"kb", kb}} {
									v := stored[pair.k]
									if !native && v.present && !v.del && v.val == "" {
										skip = true
									}
									switch pair.kind {
									case "absent":
									case "same":
										if v.present {
											fl := uint32(0)
											if v.del && fv >= 2 {
												fl = 1
											}
											if fv < 2 && !v.del && v.val == "" {
												skip = true // a live empty value cannot be expressed in format 1
											}
											dm.Append(snapshot.KV{Key: []byte(pair.k), Value: []byte(v.val), TimestampNano: v.ts, Flags: fl})
										}
									case "older-live":
										if v.present && v.ts > 0 {
											dm.Append(snapshot.KV{Key: []byte(pair.k), Value: []byte("old"), TimestampNano: v.ts - 1})
										}
									case "older-del":
										if v.present && v.ts > 0 {
											fl := uint32(1)
											if fv < 2 {
												fl = 0
											}
											dm.Append(snapshot.KV{Key: []byte(pair.k), TimestampNano: v.ts - 1, Flags: fl})
										}
									case "stale-del":
										if !v.present {
											fl := uint32(1)
											if fv < 2 {
												fl = 0
											}
											dm.Append(snapshot.KV{Key: []byte(pair.k), TimestampNano: clock - uint64(72*time.Hour), Flags: fl})
										}
									case "tie-loser":
										// same timestamp, greater value loses against a stored live value
										if v.present && !v.del && v.val != "" {
											dm.Append(snapshot.KV{Key: []byte(pair.k), Value: []byte(v.val + "z"), TimestampNano: v.ts})
										}
									}
								}
								if skip {
									a.Destroy()
									continue
								}
								msg := &snapshot.Snapshot{FormatVersion: fv, CompatVersion: 1, Databases: []*snapshot.DBI{dm}}
								msg.Meta.InstanceID = "b"
								msg.Meta.TimestampNano = clock
								data, _, err := snapshot.DumpData(msg)
								if err != nil {
									ev.Fatal("dump: %v", err)
								}
								before := world.RawString(a.Env.RawDump())
								last := a.Env.LastTxnID()
								id, changed, err := a.Load(snapshot.Name(inst.DBName, "b", "GX", time.Unix(0, int64(clock))), data, header.TxnID(last))
								pa.Executions++
								pa.Transitions++
								rep := map[string]any{"native": native, "padding": padding, "fv": fv, "stored_a": fmt.Sprint(sa), "stored_b": fmt.Sprint(sb), "incoming_a": ka, "incoming_b": kb, "filler": filler}
								desc := fmt.Sprintf("native=%v padding=%v fv=%d filler-key=%v stored a=%v b=%v incoming a=%s b=%s", native, padding, fv, filler, sa, sb, ka, kb)
								classes[fmt.Sprintf("%v/%v/%d/%s/%s/%v", native, padding, fv, ka, kb, filler)] = true
								if err != nil {
									r.Violate(pa.Name, "load-error", desc+": "+err.Error(), rep)
								} else {
									after := world.RawString(a.Env.RawDump())
									if after != before {
										r.Violate(pa.Name, "lmdb-changed-by-noop-merge", desc+":\nbefore:\n"+before+"after:\n"+after, rep)
									}
									if now := a.Env.LastTxnID(); now != last {
										r.Violate(pa.Name, "transaction-committed-by-noop-merge", fmt.Sprintf("%s: LastTxnID %d -> %d", desc, last, now), rep)
									}
									if int64(id) != last {
										r.Violate(pa.Name, "returned-txnid-not-adjusted", fmt.Sprintf("%s: LoadOnce returned txn id %d, last committed is %d", desc, id, last), rep)
									}
									if changed {
										r.Violate(pa.Name, "noop-merge-reported-local-change", desc, rep)
									}
								}
								a.Destroy()
							}
						}
					}
				}
			}
		}
	}
	verifhook.SetNow(nil)
	pa.States = int64(len(classes))
	pa.Distinct = int64(len(classes))
	pa.Bound = "native/shadow x padding x format 1..3 x stored versions of two keys {absent, live m@20, deleted@20, live ''@20, live m@0} x incoming per key {absent, identical, older live, older deleted, same-timestamp tie loser, marker past the sweeper retention for an absent key (sweeper enabled)} (quick: half of the stored pairs for formats 1,2); shadow mode format 3 also without any other key, so that the application DBI is empty when both keys are absent or deleted"
	pa.Samples = []any{"native=true padding=true fv=2 stored a={true 20 true } b={false 0 false } incoming a=same b=absent"}
	r.AddPart(pa)

	// ---------- part (b) ----------
	d := ev.Pick(r, 0, 1)
	type run struct {
		name  string
		cfg   fleet.Cfg
		depth int
	}
	runs := []run{
		{"b-native-2inst", fleet.Cfg{N: 2, Native: true, Keys: []string{"d/a"}, Vals: []string{"", "x"}, NoTick: true, Silent: -1}, 5 + d},
		{"b-shadow-2inst", fleet.Cfg{N: 2, Native: false, Keys: []string{"d/a"}, Vals: []string{"x", "y"}, Silent: -1}, 5 + d},
		{"b-native-2inst-padding", fleet.Cfg{N: 2, Native: true, Keys: []string{"d/a"}, Vals: []string{"x"}, Padding: true, Silent: -1}, 5 + d},
		{"b-native-3inst", fleet.Cfg{N: 3, Native: true, Keys: []string{"d/a"}, Vals: []string{"x"}, Silent: -1}, 4 + d},
		{"b-shadow-3inst", fleet.Cfg{N: 3, Native: false, Keys: []string{"d/a"}, Vals: []string{"x"}, Silent: -1}, 4 + d},
	}
	for ri, rn := range runs {
		if r.Expired() {
			r.AddPart(&ev.Part{Name: rn.name, Engine: "E2", Exhaustive: false, Bound: "not started: time budget used up"})
			continue
		}
		restoreBudget := r.SubBudget(r.Remaining() / time.Duration(len(runs)-ri+4)) // +4: the parts after this loop
		st := statemc.Run(r, rn.name, "x", rn.cfg, rn.depth, 0)
		restoreBudget()
		cj, _ := json.Marshal(rn.cfg)
		r.AddPart(&ev.Part{Name: rn.name, Engine: "E2", States: st.States, Transitions: st.Transitions, Executions: st.Transitions, Distinct: int64(st.Terminals), Exhaustive: st.Exhaustive,
			Bound:   fmt.Sprintf("BFS depth %d of %d completed (frontier sizes %v); every state followed by a write-free phase of exchange rounds under the loop's upload rule; cfg %s", st.Depth, rn.depth, st.PerDepth, cj),
			Samples: st.Samples})
	}
	// ---------- part (c) ----------
	for _, native := range []bool{true, false} {
		name := map[bool]string{true: "c-loop-native", false: "c-loop-shadow"}[native]
		if r.Expired() {
			r.AddPart(&ev.Part{Name: name, Engine: "E3", Exhaustive: false, Bound: "not started: time budget used up"})
			continue
		}
		xrun.Explore(r, name, xrun.Opts{Kind: "loop", Bound: ev.Pick(r, 2, 3), Budget: 30, Recycle: 4,
			Param: loopworld.Cfg{Native: native, Remote2: true, NoopRemote: true, TwoRemotes: true, ForceInterval: true, MaxVisits: 1, AppOps: []string{"put-b", "del-a"}}})
		if r.Expired() {
			continue
		}
		// forced snapshots disabled: however much time passes, a quiet instance uploads nothing
		xrun.Explore(r, name+"-forced-snapshots-disabled", xrun.Opts{Kind: "loop", Bound: ev.Pick(r, 2, 3), Budget: 30, Recycle: 4,
			Param: loopworld.Cfg{Native: native, QuietPeriod: true, Remote2: true, MaxVisits: 1, AppOps: []string{"put-b"}}})
	}
	r.Finish()
}
