// C12 — the snapshot cleaner never deletes what is still needed.
// Engine E2 (in-process): BFS over histories of snapshot arrivals, foreign
// objects, clock advances, cleaning runs, commit notifications and storage
// faults on the real cleaner.Worker; a policy model with its own first-seen
// bookkeeping judges every Delete the cleaner issues.
package main

import (
	"context"
	"encoding/json"
	"errors"
	"flag"
	"fmt"
	"sort"
	"strings"
	"sync"
	"sync/atomic"
	"time"
	"verif/lib/explore"
	"verif/lib/loopworld"
	"verif/lib/xrun"

	"github.com/PowerDNS/lightningstream/config"
	"github.com/PowerDNS/lightningstream/lmdbenv/header"
	"github.com/PowerDNS/lightningstream/snapshot"
	"github.com/PowerDNS/lightningstream/syncer/cleaner"
	"github.com/PowerDNS/lightningstream/utils/verifhook"
	"github.com/PowerDNS/lmdb-go/lmdb"
	"github.com/sirupsen/logrus"

	"verif/lib/ev"
	"verif/lib/fleet"
	"verif/lib/inst"
	"verif/lib/par"
	"verif/lib/world"
)

const db = "db"

type ccfg struct {
	Enabled bool
	Keep    time.Duration
	Stale   time.Duration
	Insts   []string
	Deltas  []time.Duration // age of a newly appearing snapshot
	Adv     []time.Duration
	Foreign bool
	Faults  bool
}

type viol struct{ sig, msg string }

var nDeletes, nStaleDeletes, nRuns atomic.Int64

type sim struct {
	cfg             ccfg
	b               *world.Bucket
	w               *cleaner.Worker
	now             time.Time
	firstSeen       map[string]time.Time // model
	committed       map[string]time.Time
	lastTS          map[string]time.Time
	failList        bool
	failDel         bool
	foreign         map[int]bool
	lastRun         time.Time
	arrivedSinceRun bool
	viols           []viol
}

var epoch = time.Date(2030, 1, 1, 0, 0, 0, 0, time.UTC)
var errInjected = errors.New("injected storage failure")
var quiet = func() *logrus.Logger { l := logrus.New(); l.SetLevel(logrus.PanicLevel); return l }()

func foreignName(n int, now time.Time) string {
	ts := snapshot.NameTimestamp(now.Add(-time.Hour))
	return []string{
		"db__garbage",
		"db__a__badts__GX.pb.gz",
		"db__a__" + ts + "__GX.txt",
		"db__x.pb.gz",
		"db__a__" + ts + "__GX.pb.gz.tmp",
		"db__a__" + ts[:len(ts)-1] + "__GX.pb.gz",
		"db2__a__" + ts + "__GX.pb.gz", // a database whose name extends ours
		"db2__a__" + snapshot.NameTimestamp(now.Add(-2*time.Hour)) + "__GX.pb.gz",
		"d__a__" + ts + "__GX.pb.gz", // a database whose name is a prefix of ours
		"d__a__" + snapshot.NameTimestamp(now.Add(-2*time.Hour)) + "__GX.pb.gz",
	}[n]
}

const nForeign = 10

func newSim(cfg ccfg) *sim {
	s := &sim{cfg: cfg, b: world.NewBucket(), now: epoch, firstSeen: map[string]time.Time{}, committed: map[string]time.Time{}, lastTS: map[string]time.Time{}, foreign: map[int]bool{}}
	s.w = cleaner.New(db, s.b, config.Cleanup{Enabled: cfg.Enabled, Interval: time.Minute, MustKeepInterval: cfg.Keep, RemoveOldInstancesInterval: cfg.Stale}, quiet)
	s.b.Hook = func(op, name string) error {
		if op == "list" && s.failList {
			return errInjected
		}
		if op == "delete" && s.failDel {
			return errInjected
		}
		return nil
	}
	return s
}

func (s *sim) enabled() []string {
	var evs []string
	for _, in := range s.cfg.Insts {
		for di, d := range s.cfg.Deltas {
			ts := s.now.Add(-d)
			if ts.After(s.lastTS[in]) {
				evs = append(evs, fmt.Sprintf("A%s%d", in, di))
			}
		}
	}
	evs = append(evs, "R")
	for ai := range s.cfg.Adv {
		evs = append(evs, fmt.Sprintf("T%d", ai))
	}
	for _, in := range s.cfg.Insts {
		if !s.lastTS[in].IsZero() {
			evs = append(evs, "C"+in+"-", "C"+in+"=", "C"+in+"+")
		}
	}
	if s.cfg.Faults {
		if !s.failList {
			evs = append(evs, "XL")
		}
		if !s.failDel {
			evs = append(evs, "XD")
		}
	}
	if s.cfg.Foreign {
		if !s.foreign[0] {
			evs = append(evs, "F")
		}
	}
	return evs
}

func validOwn(name string) (snapshot.NameInfo, bool) {
	if !strings.HasPrefix(name, db+"__") {
		return snapshot.NameInfo{}, false
	}
	ni, err := snapshot.ParseName(name)
	if err != nil || ni.Kind != snapshot.KindSnapshot || ni.SyncerName != db {
		return ni, false
	}
	return ni, true
}

func (s *sim) apply(e string) {
	switch e[0] {
	case 'A':
		in := e[1 : len(e)-1]
		di := int(e[len(e)-1] - '0')
		ts := s.now.Add(-s.cfg.Deltas[di])
		s.b.Put(snapshot.Name(db, in, "GX", ts), []byte("x"))
		s.lastTS[in] = ts
		s.arrivedSinceRun = true
	case 'F':
		for n := 0; n < nForeign; n++ {
			s.foreign[n] = true
			s.b.Put(foreignName(n, s.now), []byte("x"))
		}
	case 'T':
		s.now = s.now.Add(s.cfg.Adv[int(e[1]-'0')])
	case 'C':
		in := e[1 : len(e)-1]
		t := s.lastTS[in]
		switch e[len(e)-1] {
		case '-':
			t = t.Add(-1)
		case '+':
			t = t.Add(1)
		}
		s.w.SetCommitted(map[string]time.Time{in: t})
		if t.After(s.committed[in]) || s.committed[in].IsZero() {
			s.committed[in] = t
		} else {
			// SetCommitted overwrites: the model follows the documented meaning "last committed"
			s.committed[in] = t
		}
	case 'X':
		if e[1] == 'L' {
			s.failList = true
		} else {
			s.failDel = true
		}
	case 'R':
		s.run()
	}
}

func (s *sim) run() {
	before := s.b.Names()
	ncalls := s.b.NumCalls()
	listFails := s.failList
	delFails := s.failDel
	err := s.w.RunOnce(context.Background(), s.now)
	calls := s.b.Calls()[ncalls:]
	s.failList, s.failDel = false, false
	add := func(sig, msg string) { s.viols = append(s.viols, viol{sig, msg}) }
	if !s.cfg.Enabled {
		if len(calls) > 0 {
			add("disabled-cleaner-touches-storage", fmt.Sprintf("calls %v", calls))
		}
		return
	}
	var deletes []string
	for _, c := range calls {
		if c.Op == "delete" {
			deletes = append(deletes, c.Name)
		}
		if c.Op == "store" {
			add("cleaner-stores", c.Name)
		}
	}
	if listFails {
		if len(deletes) > 0 {
			add("deletes-after-failed-listing", fmt.Sprintf("%v", deletes))
		}
		if err == nil {
			add("failed-listing-not-reported", "RunOnce returned nil although List failed")
		}
		return
	}
	// listing of this run = `before`
	newest := map[string]snapshot.NameInfo{}
	var own []snapshot.NameInfo
	for _, n := range before {
		if ni, ok := validOwn(n); ok {
			own = append(own, ni)
			if cur, ok := newest[ni.InstanceID]; !ok || ni.Timestamp.After(cur.Timestamp) {
				newest[ni.InstanceID] = ni
			}
		}
	}
	ownSet := map[string]snapshot.NameInfo{}
	for _, ni := range own {
		ownSet[ni.FullName] = ni
	}
	// model bookkeeping: forget vanished names, judge deletions against first-seen *before* this run
	for n := range s.firstSeen {
		if _, ok := ownSet[n]; !ok {
			delete(s.firstSeen, n)
		}
	}
	nRuns.Add(1)
	for _, n := range deletes {
		nDeletes.Add(1)
		ni, ok := ownSet[n]
		if !ok {
			add("deleted-non-snapshot-or-foreign", fmt.Sprintf("Delete(%q) at now=+%v", n, s.now.Sub(epoch)))
			continue
		}
		fs, seen := s.firstSeen[n]
		if !seen {
			add("deleted-on-first-sight", fmt.Sprintf("Delete(%q): first listed in this very run", n))
		} else if s.now.Sub(fs) < s.cfg.Keep {
			add("deleted-inside-keep-interval", fmt.Sprintf("Delete(%q): first seen %v ago, must_keep_interval %v", n, s.now.Sub(fs), s.cfg.Keep))
		}
		if newest[ni.InstanceID].FullName == n {
			nStaleDeletes.Add(1)
			age := s.now.Sub(ni.Timestamp)
			com, has := s.committed[ni.InstanceID]
			switch {
			case age <= s.cfg.Stale:
				add("deleted-newest-of-live-instance", fmt.Sprintf("Delete(%q): newest snapshot of %s, age %v <= stale interval %v", n, ni.InstanceID, age, s.cfg.Stale))
			case !has || com.Before(ni.Timestamp):
				add("deleted-newest-not-proven-merged", fmt.Sprintf("Delete(%q): newest snapshot of stale instance %s, committed=%v(has=%v) < snapshot time", n, ni.InstanceID, com.Sub(epoch), has))
			}
		}
	}
	// boundedness: nothing inside the keep window, nothing new, no failed deletes => at most one per instance remains
	if !delFails {
		remaining := map[string]int{}
		allowance := map[string]int{}
		for _, n := range s.b.Names() {
			if ni, ok := ownSet[n]; ok {
				remaining[ni.InstanceID]++
			}
		}
		for n, ni := range ownSet {
			fs, seen := s.firstSeen[n]
			if !seen || s.now.Sub(fs) <= s.cfg.Keep {
				allowance[ni.InstanceID]++
			}
		}
		for in, c := range remaining {
			if c > allowance[in]+1 {
				add("superseded-snapshots-not-removed", fmt.Sprintf("instance %s: %d snapshots remain, only %d are new or inside the keep window", in, c, allowance[in]))
			}
		}
	}
	for n := range ownSet {
		if _, ok := s.firstSeen[n]; !ok {
			s.firstSeen[n] = s.now
		}
	}
	s.lastRun = s.now
	s.arrivedSinceRun = false
}

func (s *sim) canon() string {
	var parts []string
	for _, n := range s.b.Names() {
		ni, ok := validOwn(n)
		if !ok {
			parts = append(parts, "f:"+n[:min(len(n), 12)])
			continue
		}
		fs := "unseen"
		if t, ok := s.firstSeen[n]; ok {
			fs = s.now.Sub(t).String()
		}
		parts = append(parts, fmt.Sprintf("%s@%v/%s", ni.InstanceID, s.now.Sub(ni.Timestamp), fs))
	}
	sort.Strings(parts)
	var cs []string
	for in, t := range s.committed {
		cs = append(cs, fmt.Sprintf("%s:%v", in, s.now.Sub(t)))
	}
	sort.Strings(cs)
	// the worker's own bookkeeping (not only the model's mirror of it): states whose hidden state differs are never merged
	var hs []string
	rel := func(name string) string {
		if ni, ok := validOwn(name); ok {
			return fmt.Sprintf("%s@%v", ni.InstanceID, s.now.Sub(ni.Timestamp))
		}
		return name[:min(len(name), 12)]
	}
	for n, t := range s.w.VerifFirstSeen() {
		hs = append(hs, fmt.Sprintf("fs:%s=%v", rel(n), s.now.Sub(t)))
	}
	for n := range s.w.VerifIgnored() {
		hs = append(hs, "ig:"+rel(n))
	}
	for in, t := range s.w.VerifCommitted() {
		hs = append(hs, fmt.Sprintf("lc:%s=%v", in, s.now.Sub(t)))
	}
	sort.Strings(hs)
	return strings.Join(parts, ",") + "|" + strings.Join(cs, ",") + fmt.Sprintf("|%v%v|", s.failList, s.failDel) + strings.Join(hs, ",")
}

func replay(cfg ccfg, hist []string) *sim {
	s := newSim(cfg)
	for _, e := range hist {
		s.apply(e)
	}
	return s
}

func bfs(r *ev.Run, name string, cfg ccfg, depth int) {
	type node struct{ hist []string }
	seen := map[string]bool{"": true}
	frontier := []node{{}}
	var states, trans int64 = 1, 0
	var perDepth []int
	exhaustive := true
	var sample []string
	completed := 0
	for d := 0; d < depth && len(frontier) > 0; d++ {
		if r.Expired() {
			exhaustive = false
			break
		}
		var mu sync.Mutex
		var next []node
		par.ForEach(len(frontier), 0, func(w, i int) {
			h := frontier[i].hist
			base := replay(cfg, h)
			evs := base.enabled()
			for _, e := range evs {
				s := replay(cfg, h)
				nv := len(s.viols)
				s.apply(e)
				nh := append(append([]string{}, h...), e)
				key := fleet.Hash(s.canon())
				mu.Lock()
				trans++
				for _, v := range s.viols[nv:] {
					r.Violate(name, v.sig, fmt.Sprintf("history [%s]: %s", strings.Join(nh, " "), v.msg), map[string]any{"history": nh, "cfg": fmt.Sprintf("%+v", cfg)})
				}
				if !seen[key] {
					seen[key] = true
					states++
					next = append(next, node{nh})
					if len(nh) > len(sample) {
						sample = nh
					}
				}
				mu.Unlock()
			}
		})
		frontier = next
		perDepth = append(perDepth, len(next))
		completed = d + 1
	}
	r.AddPart(&ev.Part{Name: name, Engine: "E2", States: states, Transitions: trans, Executions: trans, Distinct: states, Exhaustive: exhaustive,
		Bound:   fmt.Sprintf("BFS depth %d of %d (frontier sizes %v); cfg %+v", completed, depth, perDepth, cfg),
		Samples: []any{strings.Join(sample, " ")}})
}

const K, S = 10 * time.Second, 100 * time.Second

var partCfgs = map[string]ccfg{
	"keep10s-stale100s":                {Enabled: true, Keep: K, Stale: S, Insts: []string{"a", "s"}, Deltas: []time.Duration{0, S + 2}, Adv: []time.Duration{time.Second, K, K + 1, S, S + 1}, Faults: false},
	"keep10s-stale100s-faults-foreign": {Enabled: true, Keep: K, Stale: S, Insts: []string{"a"}, Deltas: []time.Duration{0}, Adv: []time.Duration{K + 1, S + 1}, Faults: true, Foreign: true},
	"keep0-stale0":                     {Enabled: true, Keep: 0, Stale: 0, Insts: []string{"a", "s"}, Deltas: []time.Duration{0, 1}, Adv: []time.Duration{0, 1, time.Second}},
	"keep0-stale1h-3inst":              {Enabled: true, Keep: 0, Stale: time.Hour, Insts: []string{"a", "b", "s"}, Deltas: []time.Duration{0}, Adv: []time.Duration{time.Second, time.Hour + 1}},
	"disabled":                         {Enabled: false, Keep: K, Stale: S, Insts: []string{"a"}, Deltas: []time.Duration{0}, Adv: []time.Duration{S + 1}},
}

// runLoop: the sync-loop scenario with the cleaner enabled; only the cleaner oracles (c12:) are judged here.
func runLoop(param json.RawMessage, ctx *explore.Ctx, viols *[]xrun.Viol) string {
	var cfg loopworld.Cfg
	_ = json.Unmarshal(param, &cfg)
	res := loopworld.Run(cfg, ctx)
	for _, v := range res.Viols {
		if loopworld.Judged(v.Sig, "c12") {
			*viols = append(*viols, xrun.Viol{Sig: v.Sig, Msg: v.Msg})
		}
	}
	return fmt.Sprintf("%s/stores=%d/loads=%d", res.Outcome, res.Stores, res.Loads)
}

func main() {
	flag.Parse()
	par.ServeIfWorker(map[string]par.Handler{"loop": xrun.Handler(runLoop)})
	if v, ok := ev.ReplayRequested(); ok {
		if strings.HasPrefix(v.Part, "sync-loop") {
			xrun.Replay(v, runLoop)
			return
		}
		var hist []string
		if v.ReplayField("history", &hist) && !strings.HasPrefix(v.Part, "syncer-") && !strings.HasPrefix(v.Part, "receive-only") {
			cfg, ok := partCfgs[v.Part]
			if !ok {
				fmt.Printf("  unknown part %q\n", v.Part)
				return
			}
			s := newSim(cfg)
			for i, e := range hist {
				nv := len(s.viols)
				s.apply(e)
				fmt.Printf("  step %d %-5s bucket %v\n", i+1, e, s.b.Names())
				for _, vv := range s.viols[nv:] {
					fmt.Printf("      violation %s: %s\n", vv.sig, vv.msg)
				}
			}
			return
		}
		fmt.Printf("  this part enumerates inputs; the replay artefact names the failing input directly: %v\n", v.Replay)
		return
	}
	r := ev.Start("C12")
	defer r.RecoverMain()
	defer world.Cleanup()
	r.SetBudget(ev.Pick(r, 240*time.Second, 25*time.Minute))
	r.Assume("time translation invariance: the cleaner only uses differences between 'now', snapshot timestamps, first-seen times and committed times; states are keyed on exact differences",
		"per instance snapshots appear in timestamp order; the bucket lists only names with the database prefix (simpleblob contract)")

	d := ev.Pick(r, 0, 2)
	bfs(r, "keep10s-stale100s", partCfgs["keep10s-stale100s"], 7+d)
	bfs(r, "keep10s-stale100s-faults-foreign", partCfgs["keep10s-stale100s-faults-foreign"], 9+d)
	bfs(r, "keep0-stale0", partCfgs["keep0-stale0"], 7+d)
	bfs(r, "keep0-stale1h-3inst", partCfgs["keep0-stale1h-3inst"], 7+d)
	bfs(r, "disabled", partCfgs["disabled"], 5)

	r.Extra("cleaner_runs_judged", nRuns.Load())
	r.Extra("delete_calls_judged", nDeletes.Load())
	r.Extra("deletes_of_newest_snapshot_judged", nStaleDeletes.Load())
	// the syncer's side of the stale-instance rule: "merged and republished" is reported by the real SendOnce/LoadOnce
	{
		p := &ev.Part{Name: "syncer-commit-notifications", Engine: "E2", Exhaustive: true}
		verifhook.SetSkip(func(string) bool { return true })
		verifhook.SetSleep(func(context.Context, time.Duration) (bool, error) { return true, nil }) // retry sleeps take no time
		defer verifhook.SetSleep(nil)
		seqLen := ev.Pick(r, 5, 6)
		var seqs [][]byte
		var gen func(cur []byte)
		gen = func(cur []byte) {
			if len(cur) > 0 {
				seqs = append(seqs, append([]byte{}, cur...))
			}
			if len(cur) == seqLen {
				return
			}
			for _, e := range []byte("SLCFM") {
				gen(append(cur, e))
			}
		}
		gen(nil)
		outcomes := map[string]bool{}
		for _, native := range []bool{true, false} {
			for _, seq := range seqs {
				bkt := world.NewBucket()
				cfgc := &config.Cleanup{Enabled: true, Interval: time.Minute, MustKeepInterval: 0, RemoveOldInstancesInterval: time.Second}
				me := inst.New("s", bkt, inst.Opt{Native: native, Cleanup: cfgc})
				other := inst.New("c", bkt, inst.Opt{Native: native})
				put := func(i *inst.Inst, k string) {
					i.AppTxn(func(txn *lmdb.Txn) error {
						if native {
							inst.NativePut(txn, "d", []byte(k), 5, false, []byte("v"))
						} else {
							inst.PlainPut(txn, "d", 0, []byte(k), []byte("v"))
						}
						return nil
					})
				}
				put(other, "kc")
				put(me, "ks")
				if _, err := other.Send(); err != nil {
					ev.Fatal("send: %v", err)
				}
				// the silent instance published twice before it went silent: an older snapshot (event L merges that one)
				// and its newest one (event M), which is what the stale-instance rule is about
				oldName := bkt.Names()[0]
				oldData, _ := bkt.Get(oldName)
				time.Sleep(2 * time.Millisecond) // (names carry the real clock here: keep the two apart)
				put(other, "kc2")
				if _, err := other.Send(); err != nil {
					ev.Fatal("send: %v", err)
				}
				cname := bkt.Names()[1]
				cdata, _ := bkt.Get(cname)
				if cname == oldName || !strings.Contains(cname, "__c__") {
					ev.Fatal("harness: unexpected bucket %v", bkt.Names())
				}
				now := time.Now().Add(48 * time.Hour) // far beyond keep and stale intervals relative to the snapshot times
				merged, republished := false, false
				var last header.TxnID
				outage := false
				bkt.Hook = func(op, name string) error {
					if op == "store" && outage {
						return fmt.Errorf("injected storage outage")
					}
					return nil
				}
				ownBlobs := func() int {
					n := 0
					for _, nm := range bkt.Names() {
						if strings.Contains(nm, "__s__") {
							n++
						}
					}
					return n
				}
				for si, e := range seq {
					now = now.Add(time.Hour)
					switch e {
					case 'S', 'F':
						// F: every Store attempt of this SendOnce fails (storage outage)
						outage = e == 'F'
						before := ownBlobs()
						id, err := me.Send()
						outage = false
						if err == nil {
							last = id
						}
						if merged && ownBlobs() > before {
							republished = true // judged by what is in the bucket, not by what SendOnce reports
						}
					case 'L':
						// the older snapshot of c is merged (e.g. it had been downloaded before the newer one appeared)
						if _, ok := bkt.Get(oldName); ok {
							if id, changed, err := me.Load(oldName, oldData, last); err == nil && !changed {
								last = id
							}
						}
					case 'M':
						if _, ok := bkt.Get(cname); ok {
							id, changed, err := me.Load(cname, cdata, last)
							if err == nil {
								merged = true // (merging the same snapshot again needs no further upload)
								if !changed {
									last = id
								}
							}
						}
					case 'C':
						ownBefore := ""
						for _, nm := range bkt.Names() {
							if strings.Contains(nm, "__s__") {
								ownBefore = nm // newest own snapshot (names sort chronologically)
							}
						}
						_ = me.S.VerifCleaner().RunOnce(context.Background(), now)
						if _, ok := bkt.Get(ownBefore); ownBefore != "" && !ok {
							r.Violate(p.Name, "own-newest-snapshot-deleted-by-own-cleaner",
								fmt.Sprintf("native=%v sequence %s: after step %d the cleaner of instance s deleted %s, the newest snapshot of s itself (nothing newer of s exists)", native, seq, si+1, ownBefore),
								map[string]any{"native": native, "sequence": string(seq)})
						}
						if _, ok := bkt.Get(cname); !ok && !republished {
							r.Violate(p.Name, "stale-snapshot-deleted-before-merged-and-republished",
								fmt.Sprintf("native=%v sequence %s: after step %d the only snapshot of silent instance c is deleted (merged=%v, own snapshot uploaded after the merge=%v)", native, seq, si+1, merged, republished),
								map[string]any{"native": native, "sequence": string(seq)})
						}
					}
					p.Transitions++
				}
				_, still := bkt.Get(cname)
				outcomes[fmt.Sprintf("%v/%v", still, republished)] = true
				p.Executions++
				me.Destroy()
				other.Destroy()
			}
		}
		p.States = int64(len(seqs))
		p.Distinct = int64(len(outcomes))
		p.Bound = fmt.Sprintf("native and shadow x all %d sequences of length<=%d over {SendOnce, SendOnce during a storage outage, LoadOnce of the silent instance's older snapshot, LoadOnce of its newest snapshot, cleaner run}, every step an hour apart (beyond keep and stale intervals)", len(seqs), seqLen)
		p.Samples = []any{"S L C C : c's snapshot must survive (merged but not republished)", "L S C C : may be deleted"}
		r.AddPart(p)
	}
	// the cleaner goroutine inside the real Sync loop: storage errors (request timeouts) must not end it
	for _, native := range []bool{true, false} {
		name := "sync-loop-cleaner-" + map[bool]string{true: "native", false: "shadow"}[native]
		xrun.Explore(r, name, xrun.Opts{Kind: "loop", Bound: ev.Pick(r, 2, 3), Budget: 30, Recycle: 4,
			Param: loopworld.Cfg{Native: native, Cleaner: true, ListFaults: true, StoreFaults: 1, Remote2: true, AppPoints: []string{"sync.beforeInfo"}, AppOps: []string{"put-b"}, MaxVisits: 1}})
	}
	// receive-only syncer: no Store, no Delete, whatever the configuration says
	{
		p := &ev.Part{Name: "receive-only-syncer", Engine: "E1", Exhaustive: true, Bound: "native and shadow; cleanup enabled in the config; SendOnce, cleaner RunOnce x2 after the intervals"}
		for _, native := range []bool{true, false} {
			bkt := world.NewBucket()
			bkt.Put(snapshot.Name(inst.DBName, "other", "GX", epoch), []byte("x"))
			bkt.Put(snapshot.Name(inst.DBName, "other", "GX", epoch.Add(time.Second)), []byte("x"))
			i := inst.New("ro", bkt, inst.Opt{Native: native, ReceiveOnly: true, Cleanup: &config.Cleanup{Enabled: true, Interval: time.Minute}})
			i.AppTxn(func(txn *lmdb.Txn) error {
				if native {
					inst.NativePut(txn, "d", []byte("k"), 5, false, []byte("v"))
				} else {
					inst.PlainPut(txn, "d", 0, []byte("k"), []byte("v"))
				}
				return nil
			})
			_, err := i.Send()
			w := i.S.VerifCleaner()
			_ = w.RunOnce(context.Background(), epoch.Add(time.Hour))
			_ = w.RunOnce(context.Background(), epoch.Add(2000*time.Hour))
			p.Executions++
			p.Transitions += 3
			for _, c := range bkt.Calls() {
				if c.Op == "store" || c.Op == "delete" {
					r.Violate(p.Name, "receive-only-instance-writes-to-storage", fmt.Sprintf("native=%v: %s %s (send err=%v)", native, c.Op, c.Name, err), nil)
				}
			}
			i.Destroy()
		}
		p.States = 2
		p.Distinct = 2
		p.Samples = []any{"receive-only native instance: SendOnce + 2 cleaner runs -> bucket call log has no store/delete"}
		r.AddPart(p)
	}
	r.Finish()
}
