package main

import (
	"fmt"
	"os"
	"time"

	"github.com/PowerDNS/lmdb-go/lmdb"
)

func bench(flags uint, name string) {
	p := "/dev/shm/zbench-" + name
	os.RemoveAll(p)
	os.MkdirAll(p, 0o755)
	env, _ := lmdb.NewEnv()
	env.SetMapSize(16 << 20)
	env.SetMaxDBs(8)
	if err := env.Open(p, flags, 0o644); err != nil {
		fmt.Println(name, err)
		return
	}
	t0 := time.Now()
	for i := 0; i < 20000; i++ {
		env.Update(func(txn *lmdb.Txn) error {
			dbi, _ := txn.OpenDBI("d", lmdb.Create)
			return txn.Put(dbi, []byte("k"), []byte(fmt.Sprint(i)), 0)
		})
	}
	fmt.Println(name, time.Since(t0)/20000)
	t0 = time.Now()
	for i := 0; i < 2000; i++ {
		p2 := fmt.Sprintf("%s/e%d", p, i)
		os.MkdirAll(p2, 0o755)
		e2, _ := lmdb.NewEnv()
		e2.SetMapSize(16 << 20)
		e2.SetMaxDBs(8)
		e2.Open(p2, flags, 0o644)
		e2.Update(func(txn *lmdb.Txn) error {
			dbi, _ := txn.OpenDBI("d", lmdb.Create)
			return txn.Put(dbi, []byte("k"), []byte(fmt.Sprint(i)), 0)
		})
		e2.Close()
		os.RemoveAll(p2)
	}
	fmt.Println(name, "env create+txn+close", time.Since(t0)/2000)
	env.Close()
	os.RemoveAll(p)
}

func main() {
	bench(lmdb.NoSync|lmdb.NoMetaSync, "nosync")
	bench(lmdb.NoSync|lmdb.NoMetaSync|lmdb.WriteMap, "writemap")
	bench(lmdb.NoSync|lmdb.NoMetaSync|lmdb.WriteMap|lmdb.NoLock, "writemap-nolock")
	bench(lmdb.NoSync|lmdb.NoMetaSync|lmdb.NoLock, "nolock")
}
