// C17 — concurrent components neither race nor deadlock.
// Engine E3: all interleavings (preemption-bounded where stated) of small
// protocol scenarios on the real topics, climit and global-storage code under
// the controlled scheduler; deadlock = nothing parked, some thread blocked
// forever in a real primitive. Data races: auxiliary free-running -race pass.
package main

import (
	"context"
	"encoding/json"
	"errors"
	"flag"
	"fmt"
	"os"
	"os/exec"
	"regexp"
	"sort"
	"strings"
	"sync"
	"time"

	"github.com/PowerDNS/lightningstream/snapshot/storage"
	"github.com/PowerDNS/lightningstream/utils/climit"
	"github.com/PowerDNS/lightningstream/utils/topics"
	"github.com/PowerDNS/simpleblob"
	"github.com/prometheus/client_golang/prometheus"
	dto "github.com/prometheus/client_model/go"

	"verif/lib/ev"
	"verif/lib/explore"
	"verif/lib/loopworld"
	"verif/lib/par"
	"verif/lib/recvworld"
	"verif/lib/sched"
	"verif/lib/world"
	"verif/lib/xrun"
)

type viol struct{ Sig, Msg string }

// scenario: setup returns the thread bodies and a final check.
type scenario struct {
	name  string
	bound int
	setup func() (threads map[string]func(), final func(deadlocked bool) []viol)
}

var reSite = regexp.MustCompile(`lightningstream/([a-z/]+\.[A-Za-z0-9_.()*\[\]]+)`)

func site(g sched.GInfo) string {
	t := g.Top
	t = strings.TrimPrefix(t, "github.com/PowerDNS/lightningstream/")
	if i := strings.Index(t, "("); i > 0 && strings.HasSuffix(t, ")") {
		// strip argument list
		if j := strings.LastIndex(t, "("); j > 0 {
			t = t[:j]
		}
	}
	t = regexp.MustCompile(`\[[^\]]*\]`).ReplaceAllString(t, "")
	return t + "@" + g.State
}

func gaugeValue(name string, labels map[string]string) float64 {
	mfs, _ := prometheus.DefaultGatherer.Gather()
	for _, mf := range mfs {
		if mf.GetName() != name {
			continue
		}
		for _, m := range mf.GetMetric() {
			ok := true
			for k, v := range labels {
				found := false
				for _, lp := range m.GetLabel() {
					if lp.GetName() == k && lp.GetValue() == v {
						found = true
					}
				}
				if !found {
					ok = false
				}
			}
			if ok {
				if m.GetGauge() != nil {
					return m.GetGauge().GetValue()
				}
			}
		}
	}
	return -1
}

var _ = dto.MetricType_GAUGE

func scenarios() []scenario {
	var out []scenario
	// ---------- (a) topics ----------
	type subKind struct {
		name string
		body func(t *topics.Topic[int], sub *topics.Subscription[int], got *[]int, mu *sync.Mutex) func()
	}
	rec := func(got *[]int, mu *sync.Mutex, v int) {
		mu.Lock()
		*got = append(*got, v)
		mu.Unlock()
	}
	subKinds := []subKind{
		{"next-close", func(t *topics.Topic[int], sub *topics.Subscription[int], got *[]int, mu *sync.Mutex) func() {
			return func() {
				if v, err := sub.Next(context.Background()); err == nil {
					rec(got, mu, v)
				}
				sub.Close()
			}
		}},
		{"next-next-close", func(t *topics.Topic[int], sub *topics.Subscription[int], got *[]int, mu *sync.Mutex) func() {
			return func() {
				for i := 0; i < 2; i++ {
					if v, err := sub.Next(context.Background()); err == nil {
						rec(got, mu, v)
					}
				}
				sub.Close()
			}
		}},
		{"close-only", func(t *topics.Topic[int], sub *topics.Subscription[int], got *[]int, mu *sync.Mutex) func() {
			return func() { sub.Close() }
		}},
	}
	for _, sendLast := range []bool{false, true} {
		for _, npub := range []int{1, 2} {
			for _, sk := range subKinds {
				sendLast, npub, sk := sendLast, npub, sk
				out = append(out, scenario{
					name:  fmt.Sprintf("topic/%s/pubs=%d/sendLast=%v", sk.name, npub, sendLast),
					bound: map[int]int{1: 1000, 2: 2}[npub],
					setup: func() (map[string]func(), func(bool) []viol) {
						t := topics.New[int]()
						if sendLast {
							t.Publish(100) // before anyone subscribes: becomes "last"
						}
						sub := t.Subscribe(sendLast)
						var got []int
						var mu sync.Mutex
						threads := map[string]func(){
							"pub1": func() { t.Publish(1); t.Publish(2) },
							"sub":  sk.body(t, sub, &got, &mu),
						}
						if npub == 2 {
							threads["pub2"] = func() { t.Publish(11) }
						}
						return threads, func(deadlocked bool) []viol {
							var v []viol
							// values of one publisher arrive in order, without duplicates
							last1 := 0
							for _, x := range got {
								if x == 1 || x == 2 {
									if x <= last1 {
										v = append(v, viol{"topic-order", fmt.Sprintf("subscriber saw %v", got)})
									}
									last1 = x
								}
							}
							return v
						}
					},
				})
			}
		}
	}
	// Handle with a callback that fails on the n-th event
	for _, failAt := range []int{1, 2} {
		failAt := failAt
		out = append(out, scenario{
			name:  fmt.Sprintf("topic/handle-fails-at-%d", failAt),
			bound: 1000,
			setup: func() (map[string]func(), func(bool) []viol) {
				t := topics.New[int]()
				n := 0
				// the publisher cancels the handler's context when it is done, so a handler that
				// subscribes late does not wait forever (no send is pending at that moment)
				hctx, cancel := context.WithCancel(context.Background())
				return map[string]func(){
					"pub1": func() { t.Publish(1); t.Publish(2); t.Publish(3); cancel() },
					"sub": func() {
						_ = t.Handle(hctx, func(v int) error {
							n++
							if n == failAt {
								return errors.New("callback failed")
							}
							return nil
						})
					},
				}, func(bool) []viol { return nil }
			},
		})
	}
	// Close from two goroutines at once
	out = append(out, scenario{
		name:  "topic/close-close-publish",
		bound: 2,
		setup: func() (map[string]func(), func(bool) []viol) {
			t := topics.New[int]()
			sub := t.Subscribe(true)
			return map[string]func(){
				"pub1": func() { t.Publish(1) },
				"c1":   func() { sub.Close() },
				"c2":   func() { sub.Close(); sub.Close() },
			}, func(bool) []viol { return nil }
		},
	})

	// ---------- (b) token limit ----------
	for _, limit := range []int{1, 2} {
		for _, nthreads := range []int{2, 3} {
			limit, nthreads := limit, nthreads
			out = append(out, scenario{
				name:  fmt.Sprintf("climit/limit=%d/threads=%d", limit, nthreads),
				bound: map[int]int{2: 1000, 3: 2}[nthreads],
				setup: func() (map[string]func(), func(bool) []viol) {
					name := fmt.Sprintf("t%d", time.Now().UnixNano())
					cl := climit.New("verifdb", name, limit, nil)
					var mu sync.Mutex
					holders, maxHolders := 0, 0
					threads := map[string]func(){}
					var shared *climit.Token
					for i := 0; i < nthreads; i++ {
						i := i
						threads[fmt.Sprintf("w%d", i)] = func() {
							tok := cl.Acquire()
							mu.Lock()
							holders++
							if holders > maxHolders {
								maxHolders = holders
							}
							if i == 0 {
								shared = tok
							}
							mu.Unlock()
							mu.Lock()
							holders--
							mu.Unlock()
							tok.Release()
							tok.Release() // twice from the same goroutine
							if i == 1 {
								mu.Lock()
								s := shared
								mu.Unlock()
								if s != nil {
									s.Release() // and from another goroutine
								}
							}
						}
					}
					return threads, func(deadlocked bool) []viol {
						var v []viol
						if maxHolders > limit {
							v = append(v, viol{"climit-exceeded", fmt.Sprintf("%d holders with limit %d", maxHolders, limit)})
						}
						if !deadlocked {
							if g := gaugeValue("lightningstream_climit_active", map[string]string{"limit_name": name}); g != 0 {
								v = append(v, viol{"climit-gauge-not-zero", fmt.Sprintf("active gauge %v after all tokens were released", g)})
							}
							// all tokens are back: limit acquisitions succeed without blocking
							done := make(chan bool, 1)
							go func() {
								var toks []*climit.Token
								for i := 0; i < limit; i++ {
									toks = append(toks, cl.Acquire())
								}
								for _, t := range toks {
									t.Release()
								}
								done <- true
							}()
							select {
							case <-done:
							case <-time.After(5 * time.Second):
								v = append(v, viol{"climit-token-lost", "not all tokens returned to the limit"})
							}
						}
						return v
					}
				},
			})
		}
	}

	// ---------- (c) global storage ----------
	type gs struct {
		name    string
		threads func(st simpleblob.Interface, res *[]simpleblob.Interface, mu *sync.Mutex) map[string]func()
	}
	get := func(res *[]simpleblob.Interface, mu *sync.Mutex) func() {
		return func() {
			v := storage.GetGlobal()
			mu.Lock()
			*res = append(*res, v)
			mu.Unlock()
		}
	}
	for _, g := range []gs{
		{"get-set", func(st simpleblob.Interface, res *[]simpleblob.Interface, mu *sync.Mutex) map[string]func() {
			return map[string]func(){"get1": get(res, mu), "set": func() { storage.SetGlobal(st) }}
		}},
		{"get-get-set", func(st simpleblob.Interface, res *[]simpleblob.Interface, mu *sync.Mutex) map[string]func() {
			return map[string]func(){"get1": get(res, mu), "get2": get(res, mu), "set": func() { storage.SetGlobal(st) }}
		}},
		{"setset-get", func(st simpleblob.Interface, res *[]simpleblob.Interface, mu *sync.Mutex) map[string]func() {
			return map[string]func(){"get1": get(res, mu), "set": func() { storage.SetGlobal(st); storage.SetGlobal(st) }}
		}},
	} {
		g := g
		out = append(out, scenario{
			name:  "storage/" + g.name,
			bound: map[bool]int{true: 2, false: 1000}[g.name == "get-get-set"],
			setup: func() (map[string]func(), func(bool) []viol) {
				storage.VerifResetGlobal()
				st := world.NewBucket()
				var res []simpleblob.Interface
				var mu sync.Mutex
				return g.threads(st, &res, &mu), func(deadlocked bool) []viol {
					var v []viol
					for _, r := range res {
						if r != simpleblob.Interface(st) {
							v = append(v, viol{"getglobal-wrong-value", fmt.Sprintf("GetGlobal returned %v", r)})
						}
					}
					return v
				}
			},
		})
	}
	return out
}

type task struct {
	Scenario int            `json:"s"`
	Nodes    []explore.Node `json:"n"`
}

type result struct {
	Stats   explore.Stats  `json:"st"`
	Kids    []explore.Node `json:"k"`
	Viols   []violRec      `json:"v"`
	Samples []string       `json:"sm"`
}

type violRec struct {
	Sig    string          `json:"sig"`
	Msg    string          `json:"msg"`
	Prefix []explore.PStep `json:"prefix"`
	Trace  []string        `json:"trace"`
}

func runOnce(sc scenario, ctx *explore.Ctx, viols *[]violRec) string {
	s := sched.New(ctx)
	s.Policy = sched.AllInterleavings
	s.Install()
	defer s.Uninstall()
	var panics []string
	var pmu sync.Mutex
	threads, final := sc.setup()
	var names []string
	for n := range threads {
		names = append(names, n)
	}
	sort.Strings(names)
	for _, n := range names {
		body := threads[n]
		n := n
		s.Go(n, func() {
			defer func() {
				if p := recover(); p != nil {
					pmu.Lock()
					panics = append(panics, fmt.Sprintf("%s: %v", n, p))
					pmu.Unlock()
				}
			}()
			body()
		})
	}
	for s.Steps < 500 && s.Step() {
	}
	s.WaitQuiescent()
	add := func(sig, msg string) {
		*viols = append(*viols, violRec{Sig: sig, Msg: msg, Trace: ctx.TraceLabels()})
	}
	outcome := "ok"
	deadlocked := false
	var stuck []string
	for _, n := range names {
		if !s.Exited(n) {
			deadlocked = true
		}
	}
	if deadlocked {
		for _, g := range s.BlockedManaged() {
			stuck = append(stuck, site(g))
		}
		sort.Strings(stuck)
		if len(s.Parked()) > 0 {
			outcome = "horizon"
			add("step-horizon-reached", fmt.Sprintf("%s: still running after %d steps", sc.name, s.Steps))
		} else {
			outcome = "deadlock"
			add("deadlock:"+strings.Join(stuck, "|"), fmt.Sprintf("%s: nothing left to schedule, blocked forever: %v", sc.name, stuck))
		}
	}
	pmu.Lock()
	for _, p := range panics {
		outcome = "panic"
		sig := "panic"
		if strings.Contains(p, "Storage still nil") {
			sig = "panic-getglobal-storage-still-nil-after-wait"
		}
		add(sig, sc.name+": "+p)
	}
	pmu.Unlock()
	s.Uninstall()
	s.Drain()
	for _, v := range final(deadlocked) {
		add(v.Sig, sc.name+": "+v.Msg)
	}
	return outcome
}

// part (d): cancellation of the real sync loop at every decision point.
func runLoop(param json.RawMessage, ctx *explore.Ctx, viols *[]xrun.Viol) string {
	var cfg loopworld.Cfg
	_ = json.Unmarshal(param, &cfg)
	res := loopworld.Run(cfg, ctx)
	for _, v := range res.Viols {
		if !loopworld.Judged(v.Sig, "c17") {
			continue
		}
		*viols = append(*viols, xrun.Viol{Sig: v.Sig, Msg: v.Msg})
	}
	return res.Outcome
}

var thorough = os.Getenv("VERIF_C17_THOROUGH") != ""

// boundOf: two-thread scenarios are explored completely; with three threads the preemption bound is 2 (quick) / 3 (thorough).
func boundOf(sc scenario) int {
	if sc.bound >= 1000 {
		return 1000
	}
	if thorough {
		return sc.bound + 1
	}
	return sc.bound
}

func handle(b []byte) []byte {
	var t task
	_ = json.Unmarshal(b, &t)
	sc := scenarios()[t.Scenario]
	var res result
	run := func(ctx *explore.Ctx) string {
		out := runOnce(sc, ctx, &res.Viols)
		if len(res.Samples) < 2 {
			res.Samples = append(res.Samples, strings.Join(ctx.TraceLabels(), " ; "))
		}
		if len(res.Viols) > 40 {
			res.Viols = res.Viols[:40]
		}
		return out
	}
	res.Kids = explore.Budgeted(t.Nodes, boundOf(sc), 40, run, &res.Stats)
	out, _ := json.Marshal(res)
	return out
}

func main() {
	flag.Parse()
	par.ServeIfWorker(map[string]par.Handler{"x": handle, "loop": xrun.Handler(runLoop), "recv": xrun.Handler(runRecv)})
	if v, ok := ev.ReplayRequested(); ok {
		var name string
		var schedule []string
		if strings.HasPrefix(v.Part, "cancel-sync-loop") {
			xrun.Replay(v, runLoop)
			return
		}
		if strings.HasPrefix(v.Part, "receiver-tokens") {
			xrun.Replay(v, runRecv)
			return
		}
		if v.ReplayField("scenario", &name) && v.ReplayField("schedule", &schedule) {
			for _, sc := range scenarios() {
				if sc.name == name {
					for round := 1; round <= 2; round++ {
						ctx := explore.NewCtx(nil)
						ctx.Follow = schedule
						var viols []violRec
						out := runOnce(sc, ctx, &viols)
						fmt.Printf("  re-execution %d: outcome %s (%d steps) divergence=%q\n", round, out, len(ctx.Trace), ctx.Diverged)
						for _, x := range viols {
							fmt.Printf("    violation %s: %s\n", x.Sig, x.Msg)
						}
					}
				}
			}
		} else {
			fmt.Printf("  replay artefact: %v\n", v.Replay)
		}
		return
	}
	if dbg := os.Getenv("VERIF_DEBUG_SCENARIO"); dbg != "" {
		var si int
		fmt.Sscan(dbg, &si)
		sc := scenarios()[si]
		var st explore.Stats
		var viols []violRec
		t0 := time.Now()
		nodes := []explore.Node{{}}
		for len(nodes) > 0 {
			nodes = explore.Budgeted(nodes, sc.bound, 50, func(ctx *explore.Ctx) string {
				out := runOnce(sc, ctx, &viols)
				if st.Executions < 3 {
					fmt.Println("trace:", strings.Join(ctx.TraceLabels(), " ; "), "->", out)
				}
				return out
			}, &st)
			fmt.Printf("%s: exec=%d steps=%d pending=%d outcomes=%v viols=%d t=%v\n", sc.name, st.Executions, st.Steps, len(nodes), st.Outcomes, len(viols), time.Since(t0))
			if st.Executions > 2000 {
				break
			}
		}
		for i, v := range viols {
			if i < 3 {
				fmt.Println(v.Sig, v.Msg, v.Trace)
			}
		}
		return
	}
	r := ev.Start("C17")
	defer r.RecoverMain()
	r.SetBudget(ev.Pick(r, 300*time.Second, 25*time.Minute))
	defer world.Cleanup()
	r.Assume("scheduling points: before every lock / channel operation of topics, climit, storage (verifhook yield points); real mutexes and channels keep their real semantics",
		"unsynchronised accesses are invisible to a cooperative scheduler: data races are looked for by the separate free-running -race pass (sampling, reported as such)",
		"Topic.Publish iterates a map: scenarios use one subscriber per topic")
	scs := scenarios()
	if r.Thorough() {
		os.Setenv("VERIF_C17_THOROUGH", "1")
		thorough = true
	}
	pool := &par.Pool{Timeout: 10 * time.Minute, Recycle: 1}
	for si, sc := range scs {
		part := &ev.Part{Name: sc.name, Engine: "E3", Exhaustive: true}
		outcomes := map[string]int64{}
		merge := func(res result) {
			part.Executions += res.Stats.Executions
			part.Transitions += res.Stats.Steps
			for k, v := range res.Stats.Outcomes {
				outcomes[k] += v
				if strings.HasPrefix(k, "DIVERGED") {
					ev.Fatal("replay divergence in %s: %s", sc.name, k)
				}
			}
			for _, v := range res.Viols {
				r.Violate(sc.name, v.Sig, v.Msg+"\n  schedule: "+strings.Join(v.Trace, " ; "), map[string]any{"scenario": sc.name, "schedule": v.Trace})
			}
			for _, s := range res.Samples {
				if len(part.Samples) < 2 {
					part.Samples = append(part.Samples, s)
				}
			}
			if res.Stats.Truncated {
				part.Exhaustive = false
			}
		}
		// work queue: every task explores at most 300 executions below its nodes and hands back the rest
		queue := []explore.Node{{}}
		for len(queue) > 0 {
			if r.Expired() {
				part.Exhaustive = false
				break
			}
			var tasks [][]byte
			chunk := 1
			if len(queue) > 64 {
				chunk = (len(queue) + 63) / 64
			}
			for i := 0; i < len(queue); i += chunk {
				e := i + chunk
				if e > len(queue) {
					e = len(queue)
				}
				j, _ := json.Marshal(task{Scenario: si, Nodes: queue[i:e]})
				tasks = append(tasks, j)
			}
			queue = nil
			pool.Map("x", tasks, func(pr par.Result) {
				if pr.Err != nil {
					r.Violate(sc.name, "worker-crash", fmt.Sprintf("%v\n%s", pr.Err, par.TrimStderr(pr.Stderr)), nil)
					return
				}
				var res result
				_ = json.Unmarshal(pr.Out, &res)
				merge(res)
				queue = append(queue, res.Kids...)
			}, nil)
		}
		part.States = int64(len(outcomes))
		part.Distinct = int64(len(outcomes))
		part.Bound = fmt.Sprintf("preemption bound %d (1000 = all interleavings of the hooked operations); outcomes %v", boundOf(sc), outcomes)
		r.AddPart(part)
	}
	for _, native := range []bool{true, false} {
		name := map[bool]string{true: "cancel-sync-loop/native", false: "cancel-sync-loop/shadow"}[native]
		if r.Expired() {
			r.AddPart(&ev.Part{Name: name, Engine: "E3", Exhaustive: false, Bound: "not started: time budget used up"})
			continue
		}
		xrun.Explore(r, name, xrun.Opts{Kind: "loop", Bound: ev.Pick(r, 2, 3), Budget: 30, Recycle: 4,
			Param: loopworld.Cfg{Native: native, Cancel: true, ListFaults: true, LoadFaults: true, StoreFaults: 1, Remote2: true, AppPoints: []string{"none"}}})
	}
	// cancellation while the storage is down from the very start (List fails with an ordinary error, whatever the context says)
	for _, native := range []bool{true} {
		name := "cancel-during-initial-storage-outage"
		_ = native
		if r.Expired() {
			r.AddPart(&ev.Part{Name: name, Engine: "E3", Exhaustive: false, Bound: "not started: time budget used up"})
			continue
		}
		xrun.Explore(r, name, xrun.Opts{Kind: "loop", Bound: 1, Budget: 30, Recycle: 4,
			Param: loopworld.Cfg{Native: true, Cancel: true, ListOutage: true, AppPoints: []string{"none"}}})
	}
	// the receiver with its downloaders and the shared token pools: no goroutine may wait forever for a token
	// (an undecodable blob exercises every error path of the downloader)
	for _, pl := range [][]string{{"b:newest"}, {"b:newest", "c:newest"}} {
		name := "receiver-tokens/corrupt-" + strings.Join(pl, "+")
		if r.Expired() {
			r.AddPart(&ev.Part{Name: name, Engine: "E3", Exhaustive: false, Bound: "not started: time budget used up"})
			continue
		}
		xrun.Explore(r, name, xrun.Opts{Kind: "recv", Bound: ev.Pick(r, 1, 2), Budget: 40, Recycle: 2,
			Param: recvworld.Cfg{DownloadLimit: 1, DecompressLimit: 1, Instances: []string{"b", "c"}, Corrupt: pl, Faults: r.Thorough(), Polls: 1}})
	}
	racePass(r)
	r.Finish()
}

func runRecv(param json.RawMessage, ctx *explore.Ctx, viols *[]xrun.Viol) string {
	var cfg recvworld.Cfg
	_ = json.Unmarshal(param, &cfg)
	res := recvworld.Run(cfg, ctx)
	for _, v := range res.Viols {
		*viols = append(*viols, xrun.Viol{Sig: v.Sig, Msg: v.Msg})
	}
	return res.Outcome
}

var reRaceFn = regexp.MustCompile(`(?m)^  (github\.com/PowerDNS/lightningstream/[^\s(]+)\(`)

// racePass: auxiliary, free-running, sampling. The scenario bodies run with real timers under the Go race
// detector (a cooperative scheduler hides unsynchronised accesses by construction).
func racePass(r *ev.Run) {
	p := &ev.Part{Name: "e-race-pass (sampling, not exhaustive)", Engine: "-race", Exhaustive: false}
	defer r.AddPart(p)
	raceBin := ev.VerifRoot + "/.build/c17race"
	build := exec.Command("go", "build", "-race", "-tags", "verif", "-o", raceBin, "./checks/c17race")
	build.Dir = ev.VerifRoot + "/mc"
	build.Env = append(os.Environ(), "GOFLAGS=-mod=mod", "GOPROXY=off")
	if out, err := build.CombinedOutput(); err != nil {
		p.Bound = "race build failed: " + string(out)
		p.Note = "not run"
		fmt.Fprintln(os.Stderr, "race pass: build failed:", string(out))
		return
	}
	rounds := ev.Pick(r, 5, 60)
	cmd := exec.Command(raceBin, "-rounds", fmt.Sprint(rounds), "-dur", "300ms")
	cmd.Env = append(os.Environ(), "GORACE=halt_on_error=0 exitcode=66", "GODEBUG=") // free-running: ordinary preemption
	out, err := cmd.CombinedOutput()
	text := string(out)
	p.Executions = int64(2 * rounds)
	p.Transitions = int64(2 * rounds)
	p.States = 1
	p.Bound = fmt.Sprintf("%d free-running rounds of 300 ms (3 sync loops with cleaner and sweeper enabled, writing applications, event subscribers that close mid-delivery, token releases from several goroutines, GetGlobal/SetGlobal) under the race detector", 2*rounds)
	p.Samples = []any{"round: native, instances a,b,c, 300 ms"}
	blocks := strings.Split(text, "WARNING: DATA RACE")
	for _, b := range blocks[1:] {
		fns := reRaceFn.FindAllStringSubmatch(b, -1)
		var names []string
		seen := map[string]bool{}
		for _, f := range fns {
			n := strings.TrimPrefix(f[1], "github.com/PowerDNS/lightningstream/")
			if !seen[n] && len(names) < 2 {
				seen[n] = true
				names = append(names, n)
			}
		}
		if len(b) > 2500 {
			b = b[:2500]
		}
		r.Violate(p.Name, "data-race:"+strings.Join(names, "|"), "race detector report:"+b, map[string]any{"report": b})
	}
	if strings.Contains(text, "fatal error:") || strings.Contains(text, "panic:") {
		i := strings.Index(text, "fatal error:")
		if i < 0 {
			i = strings.Index(text, "panic:")
		}
		msg := text[i:]
		if len(msg) > 2000 {
			msg = msg[:2000]
		}
		r.Violate(p.Name, "crash-in-free-running-pass", msg, nil)
	} else if strings.Contains(text, "HANG:") {
		r.Violate(p.Name, "goroutines-do-not-stop-after-cancel", "free-running pass: goroutines still running 20 s after cancellation", nil)
	} else if err != nil && len(blocks) == 1 {
		r.Violate(p.Name, "race-pass-failed", fmt.Sprintf("%v\n%s", err, text[max(0, len(text)-1500):]), nil)
	}
}
